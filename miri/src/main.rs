//! C02 supplement: two..three OS threads, each with a heap and an environment of its own, evaluate
//! the same small programs at once under Miri's seeded scheduler (`-Zmiri-many-seeds`,
//! `-Zmiri-preemption-rate`): Miri decides, from its seed, at which basic block a thread is
//! preempted, so an interleaving *inside* a built-in (between two hook points of the main
//! simulator) is reachable and one seed is one repeatable execution. Oracle: every result equals
//! the one the same program gave single-threaded before the threads started.
use blots_core::environment::Environment;
use blots_core::expressions::evaluate_pairs;
use blots_core::heap::Heap;
use blots_core::parser::{get_pairs, Rule};
use blots_core::values::SerializableValue;
use std::cell::RefCell;
use std::rc::Rc;

fn run(src: &str) -> String {
    let heap = Rc::new(RefCell::new(Heap::new()));
    let env = Rc::new(Environment::new());
    let rec = heap.borrow_mut().insert_record(indexmap::IndexMap::new());
    env.insert("inputs".to_string(), rec);
    let Ok(pairs) = get_pairs(src) else { return "parse-error".into() };
    let mut out = String::new();
    for pair in pairs {
        if pair.as_rule() != Rule::statement {
            continue;
        }
        let Some(inner) = pair.into_inner().next() else { continue };
        if inner.as_rule() == Rule::comment {
            continue;
        }
        match evaluate_pairs(inner.into_inner(), Rc::clone(&heap), Rc::clone(&env), 0, src) {
            Ok(v) => match SerializableValue::from_value(&v, &heap.borrow()) {
                Ok(sv) => out.push_str(&format!("{:?};", sv)),
                Err(_) => out.push_str("unserialisable;"),
            },
            Err(_) => out.push_str("error;"),
        }
    }
    out
}

/// Programs per thread role: the same built-ins over the same text in different orders, so that
/// process-wide state keyed on "the last argument" or "the last operation" is exercised.
const PROGRAMS: &[&str] = &[
    "s = \"Grüße Ünï\"\n[uppercase(s), lowercase(s), uppercase(s)]",
    "s = \"Grüße Ünï\"\n[lowercase(s), uppercase(s), lowercase(s)]",
    "t = \"ß,é,ß\"\n[split(t, \",\"), join([\"é\", \"ß\"], \"-\"), replace(t, \"ß\", \"ss\"), trim(\"  ü \")]",
    "[to_string(1234.5), format(\"{}\", 1234567), sort([\"é\", \"e\", \"z\"]), keys({ä: 1, b: 2})]",
    "[sum([0.1, 0.2, 0.3]), median([3, 1, 2]), unique([1, 1, 2]), convert(1, \"km\", \"m\")]",
];

fn main() {
    let threads: usize = std::env::args().nth(1).and_then(|s| s.parse().ok()).unwrap_or(2);
    let rounds: usize = std::env::args().nth(2).and_then(|s| s.parse().ok()).unwrap_or(2);
    let reference: Vec<String> = PROGRAMS.iter().map(|p| run(p)).collect();
    let reference = std::sync::Arc::new(reference);
    let mut hs = vec![];
    for t in 0..threads {
        let r = std::sync::Arc::clone(&reference);
        hs.push(std::thread::spawn(move || {
            let mut bad = vec![];
            for round in 0..rounds {
                for k in 0..PROGRAMS.len() {
                    let i = (k + t + round) % PROGRAMS.len();
                    let got = run(PROGRAMS[i]);
                    if got != r[i] {
                        bad.push(format!("thread={} round={} program={} got={} want={}", t, round, i, got, r[i]));
                    }
                }
            }
            bad
        }));
    }
    let mut bad = vec![];
    for h in hs {
        bad.extend(h.join().unwrap());
    }
    if !bad.is_empty() {
        for b in &bad {
            println!("DIVERGENCE {}", b);
        }
        std::process::exit(1);
    }
    println!("miri-threads ok threads={} rounds={} programs={}", threads, rounds, PROGRAMS.len());
}

//! Running the real `blots` binary under the LD_PRELOAD syscall simulator (shim/simio.c).

use serde::{Deserialize, Serialize};
use std::io::Write;
use std::os::unix::process::{CommandExt, ExitStatusExt};
use std::process::{Command, Stdio};
use std::sync::Mutex;
use std::sync::atomic::{AtomicBool, AtomicU64, Ordering};

#[derive(Clone, Debug, PartialEq, Serialize, Deserialize)]
pub enum Rule {
    RChunks { cls: String, sizes: Vec<u32>, star: bool },
    WChunks { cls: String, sizes: Vec<u32>, star: bool },
    RErr { cls: String, call: u32, errno: i32, times: u32 },
    WErr { cls: String, call: u32, errno: i32, times: u32 },
    REof { cls: String, n: u64 },
    OpenErr { cls: String, errno: i32 },
    /// getenv(name) returns value
    Env { name: String, value: String },
    /// getenv(name) returns NULL
    UnEnv { name: String },
}

#[derive(Clone, Debug, PartialEq, Serialize, Deserialize)]
pub struct Plan {
    pub seed: u64,
    pub clock_real: i64,
    pub clock_mono: i64,
    pub clock_step: i64,
    pub rules: Vec<Rule>,
}

impl Plan {
    pub fn canonical() -> Plan {
        Plan { seed: 0, clock_real: 1_700_000_000_000_000_000, clock_mono: 1_000_000_000, clock_step: 1000, rules: vec![] }
    }
    pub fn text(&self, src_suffix: &str, out_suffix: &str) -> String {
        let mut s = String::new();
        s.push_str(&format!("seed {}\n", self.seed));
        s.push_str(&format!("clock {} {} {}\n", self.clock_real, self.clock_mono, self.clock_step));
        s.push_str(&format!("path src {}\n", src_suffix));
        s.push_str(&format!("path out {}\n", out_suffix));
        let ch = |sizes: &Vec<u32>, star: bool| {
            let mut v: Vec<String> = sizes.iter().map(|x| x.to_string()).collect();
            if star {
                v.push("*".into());
            }
            v.join(",")
        };
        for r in &self.rules {
            match r {
                Rule::RChunks { cls, sizes, star } => s.push_str(&format!("rchunks {} {}\n", cls, ch(sizes, *star))),
                Rule::WChunks { cls, sizes, star } => s.push_str(&format!("wchunks {} {}\n", cls, ch(sizes, *star))),
                Rule::RErr { cls, call, errno, times } => s.push_str(&format!("rerr {} {} {} {}\n", cls, call, errno, times)),
                Rule::WErr { cls, call, errno, times } => s.push_str(&format!("werr {} {} {} {}\n", cls, call, errno, times)),
                Rule::REof { cls, n } => s.push_str(&format!("reof {} {}\n", cls, n)),
                Rule::OpenErr { cls, errno } => s.push_str(&format!("openerr {} {}\n", cls, errno)),
                Rule::Env { name, value } => s.push_str(&format!("env {} {}\n", name, value)),
                Rule::UnEnv { name } => s.push_str(&format!("unenv {}\n", name)),
            }
        }
        s
    }
}

#[derive(Clone, Debug, PartialEq)]
pub struct Event {
    pub seq: u64,
    pub op: String,
    pub cls: String,
    pub req: i64,
    pub ret: i64,
    pub errno: i32,
}

pub fn parse_log(text: &str) -> Vec<Event> {
    let mut v = vec![];
    for line in text.lines() {
        let mut e = Event { seq: 0, op: String::new(), cls: String::new(), req: 0, ret: 0, errno: 0 };
        for tok in line.split(' ') {
            if let Some((k, val)) = tok.split_once('=') {
                match k {
                    "seq" => e.seq = val.parse().unwrap_or(0),
                    "op" => e.op = val.to_string(),
                    "cls" => e.cls = val.to_string(),
                    "req" => e.req = val.parse().unwrap_or(0),
                    "ret" => e.ret = val.parse().unwrap_or(0),
                    "errno" => e.errno = val.parse().unwrap_or(0),
                    _ => {}
                }
            }
        }
        v.push(e);
    }
    v
}

#[derive(Clone, Debug, PartialEq, Serialize, Deserialize)]
pub enum StdinKind {
    DevNull,
    Pipe(Vec<u8>),
    File(Vec<u8>),
    /// stdin is a directory: every read fails with EISDIR (real kernel object)
    Dir,
}

#[derive(Clone, Debug, PartialEq, Serialize, Deserialize)]
pub enum StdoutKind {
    Pipe,
    /// /dev/full: every write fails with ENOSPC (real kernel object)
    DevFull,
}

#[derive(Clone, Debug)]
pub struct Invocation {
    pub argv: Vec<String>,
    pub stdin: StdinKind,
    pub stdout: StdoutKind,
    /// files to create in the sandbox before the run: (relative path, bytes)
    pub files: Vec<(String, Vec<u8>)>,
    /// directories to create
    pub dirs: Vec<String>,
    pub plan: Option<Plan>,
    pub src_suffix: String,
    pub out_suffix: String,
    pub aslr_off: bool,
    /// relative path of the --output file to read back afterwards
    pub out_path: Option<String>,
    /// additional environment variables of the child process
    pub extra_env: Vec<(String, String)>,
}

#[derive(Clone, Debug)]
pub struct RunResult {
    pub exit: Option<i32>,
    pub signal: Option<i32>,
    pub stdout: Vec<u8>,
    pub stderr: Vec<u8>,
    pub out_file: Option<Vec<u8>>,
    pub log: Vec<Event>,
    pub log_text: String,
    pub timed_out: bool,
}

unsafe extern "C" {
    fn personality(p: std::ffi::c_ulong) -> std::ffi::c_int;
    fn kill(pid: i32, sig: i32) -> i32;
}

// ---- watchdog: kills children that exceed the (very generous) deadline -----------------

static WATCH: Mutex<Vec<(u32, u64, std::sync::Arc<AtomicBool>)>> = Mutex::new(Vec::new());
static WATCH_STARTED: AtomicBool = AtomicBool::new(false);
pub static TIMEOUT_S: AtomicU64 = AtomicU64::new(120);

fn watchdog_start() {
    if WATCH_STARTED.swap(true, Ordering::SeqCst) {
        return;
    }
    std::thread::spawn(|| {
        loop {
            std::thread::sleep(std::time::Duration::from_millis(500));
            let now = crate::seams::real_monotonic_ns();
            let w = WATCH.lock().unwrap();
            for (pid, deadline, flag) in w.iter() {
                if now > *deadline {
                    flag.store(true, Ordering::SeqCst);
                    unsafe { kill(*pid as i32, 9) };
                }
            }
        }
    });
}

static SANDBOX_CTR: AtomicU64 = AtomicU64::new(0);

pub fn sandbox_root() -> String {
    let base = std::env::var("VERIF_TMP").unwrap_or_else(|_| std::env::temp_dir().to_string_lossy().to_string());
    format!("{}/blots-sim-{}", base, std::process::id())
}

pub fn cleanup_sandboxes() {
    let _ = std::fs::remove_dir_all(sandbox_root());
}

pub fn run_cli(cli: &str, shim: &str, inv: &Invocation) -> RunResult {
    watchdog_start();
    let n = SANDBOX_CTR.fetch_add(1, Ordering::Relaxed);
    let dir = format!("{}/r{}", sandbox_root(), n);
    std::fs::create_dir_all(&dir).expect("sandbox dir");
    for d in &inv.dirs {
        std::fs::create_dir_all(format!("{}/{}", dir, d)).expect("sandbox subdir");
    }
    for (p, b) in &inv.files {
        std::fs::write(format!("{}/{}", dir, p), b).expect("sandbox file");
    }
    let mut cmd = Command::new(cli);
    cmd.args(&inv.argv).current_dir(&dir);
    cmd.env_clear();
    cmd.env("PATH", "/usr/bin:/bin");
    cmd.env("NO_COLOR", "1");
    for (k, v) in &inv.extra_env {
        if v == "<unset>" {
            cmd.env_remove(k);
        } else {
            cmd.env(k, v);
        }
    }
    if let Some(plan) = &inv.plan {
        std::fs::write(format!("{}/.plan", dir), plan.text(&inv.src_suffix, &inv.out_suffix)).expect("plan");
        cmd.env("LD_PRELOAD", shim);
        cmd.env("SIMIO_PLAN", format!("{}/.plan", dir));
        cmd.env("SIMIO_LOG", format!("{}/.log", dir));
    }
    match &inv.stdin {
        StdinKind::DevNull => {
            cmd.stdin(Stdio::null());
        }
        StdinKind::Pipe(_) => {
            cmd.stdin(Stdio::piped());
        }
        StdinKind::File(b) => {
            std::fs::write(format!("{}/.stdin", dir), b).expect("stdin file");
            cmd.stdin(std::fs::File::open(format!("{}/.stdin", dir)).expect("open stdin file"));
        }
        StdinKind::Dir => {
            cmd.stdin(std::fs::File::open(&dir).expect("open dir as stdin"));
        }
    }
    match &inv.stdout {
        StdoutKind::Pipe => {
            cmd.stdout(Stdio::piped());
        }
        StdoutKind::DevFull => {
            cmd.stdout(std::fs::OpenOptions::new().write(true).open("/dev/full").expect("open /dev/full"));
        }
    }
    cmd.stderr(Stdio::piped());
    if inv.aslr_off {
        unsafe {
            cmd.pre_exec(|| {
                personality(0x0040000);
                Ok(())
            });
        }
    }
    let mut child = match cmd.spawn() {
        Ok(c) => c,
        Err(e) => {
            eprintln!("HARNESS-ERROR: cannot spawn {}: {}", cli, e);
            std::process::exit(2);
        }
    };
    let flag = std::sync::Arc::new(AtomicBool::new(false));
    let pid = child.id();
    let deadline = crate::seams::real_monotonic_ns() + TIMEOUT_S.load(Ordering::Relaxed) * 1_000_000_000;
    WATCH.lock().unwrap().push((pid, deadline, flag.clone()));
    if let StdinKind::Pipe(b) = &inv.stdin {
        if let Some(mut si) = child.stdin.take() {
            let _ = si.write_all(b); // EPIPE if the child does not read: fine
        }
    }
    let out = child.wait_with_output().expect("wait");
    WATCH.lock().unwrap().retain(|(p, _, _)| *p != pid);
    let log_text = std::fs::read_to_string(format!("{}/.log", dir)).unwrap_or_default();
    let out_file = inv.out_path.as_ref().and_then(|p| {
        let full = format!("{}/{}", dir, p);
        let md = std::fs::metadata(&full).ok()?;
        if md.is_file() { std::fs::read(&full).ok() } else { None }
    });
    let rr = RunResult {
        exit: out.status.code(),
        signal: out.status.signal(),
        stdout: out.stdout,
        stderr: out.stderr,
        out_file,
        log: parse_log(&log_text),
        log_text,
        timed_out: flag.load(Ordering::SeqCst),
    };
    let _ = std::fs::remove_dir_all(&dir);
    rr
}

// ---- the interactive mode, driven through a pseudo-terminal -----------------------------

unsafe extern "C" {
    fn posix_openpt(flags: std::ffi::c_int) -> std::ffi::c_int;
    fn grantpt(fd: std::ffi::c_int) -> std::ffi::c_int;
    fn unlockpt(fd: std::ffi::c_int) -> std::ffi::c_int;
    fn ptsname_r(fd: std::ffi::c_int, buf: *mut std::ffi::c_char, len: usize) -> std::ffi::c_int;
}

/// Run the real binary in interactive mode: stdin is the slave side of a fresh pseudo-terminal
/// (so `is_terminal()` holds), stdout and stderr are pipes, `TERM=dumb` makes the line editor
/// read plain lines. `lines` are typed one after the other, followed by end-of-file (^D).
/// Returns None when no pseudo-terminal can be had (counted by the caller, not an error).
pub fn run_repl(cli: &str, argv: &[String], lines: &[String]) -> Option<RunResult> {
    use std::os::fd::FromRawFd;
    use std::os::unix::fs::OpenOptionsExt;
    watchdog_start();
    let n = SANDBOX_CTR.fetch_add(1, Ordering::Relaxed);
    let dir = format!("{}/r{}", sandbox_root(), n);
    std::fs::create_dir_all(&dir).expect("sandbox dir");
    let (master, slave) = unsafe {
        let m = posix_openpt(2 | 0o400 | 0o2000000); // O_RDWR | O_NOCTTY | O_CLOEXEC
        if m < 0 || grantpt(m) != 0 || unlockpt(m) != 0 {
            return None;
        }
        let mut buf = [0 as std::ffi::c_char; 128];
        if ptsname_r(m, buf.as_mut_ptr(), buf.len()) != 0 {
            return None;
        }
        let name = std::ffi::CStr::from_ptr(buf.as_ptr()).to_string_lossy().to_string();
        let slave = std::fs::OpenOptions::new().read(true).write(true).custom_flags(0o400).open(&name).ok()?;
        (std::fs::File::from_raw_fd(m), slave)
    };
    let mut cmd = Command::new(cli);
    cmd.args(argv).current_dir(&dir);
    cmd.env_clear();
    cmd.env("PATH", "/usr/bin:/bin");
    cmd.env("NO_COLOR", "1");
    cmd.env("TERM", "dumb");
    cmd.stdin(slave);
    cmd.stdout(Stdio::piped());
    cmd.stderr(Stdio::piped());
    let child = match cmd.spawn() {
        Ok(c) => c,
        Err(e) => {
            eprintln!("HARNESS-ERROR: cannot spawn {}: {}", cli, e);
            std::process::exit(2);
        }
    };
    drop(cmd); // closes our copy of the slave side
    let flag = std::sync::Arc::new(AtomicBool::new(false));
    let pid = child.id();
    let deadline = crate::seams::real_monotonic_ns() + TIMEOUT_S.load(Ordering::Relaxed) * 1_000_000_000;
    WATCH.lock().unwrap().push((pid, deadline, flag.clone()));
    // the terminal echoes what is typed back to the master side: drain it; type from a second
    // thread (the terminal's input queue holds 4 KiB, the writer blocks while it is full)
    let mut typed: Vec<u8> = vec![];
    for l in lines {
        typed.extend_from_slice(l.as_bytes());
        typed.push(b'\n');
    }
    typed.push(4);
    let mut wm = master.try_clone().ok()?;
    let writer = std::thread::spawn(move || {
        let _ = wm.write_all(&typed);
    });
    let mut rm = master;
    let drain = std::thread::spawn(move || {
        use std::io::Read;
        let mut b = [0u8; 4096];
        loop {
            match rm.read(&mut b) {
                Ok(0) | Err(_) => break,
                Ok(_) => {}
            }
        }
    });
    let out = child.wait_with_output().expect("wait");
    WATCH.lock().unwrap().retain(|(p, _, _)| *p != pid);
    let _ = writer.join();
    let _ = drain.join();
    let rr = RunResult {
        exit: out.status.code(),
        signal: out.status.signal(),
        stdout: out.stdout,
        stderr: out.stderr,
        out_file: None,
        log: vec![],
        log_text: String::new(),
        timed_out: flag.load(Ordering::SeqCst),
    };
    let _ = std::fs::remove_dir_all(&dir);
    Some(rr)
}

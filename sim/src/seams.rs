//! Seams the simulator owns without touching /repo:
//!  * `getrandom` — the only entropy std's `RandomState` uses for HashMap/HashSet keys.
//!  * `clock_gettime` — what `SystemTime::now()` and `Instant::now()` read.
//! Both are plain C symbols defined in this binary; the static linker binds std's (libc's)
//! references to these definitions. Inside a *simulated thread* they answer from thread-local
//! simulator state; everywhere else they pass through to the raw syscall.

use std::cell::{Cell, RefCell};
use std::ffi::{c_int, c_long, c_void};

unsafe extern "C" {
    fn syscall(num: c_long, ...) -> c_long;
}
const SYS_GETRANDOM: c_long = 318; // x86_64
const SYS_CLOCK_GETTIME: c_long = 228; // x86_64

#[repr(C)]
#[derive(Clone, Copy)]
pub struct Timespec {
    pub tv_sec: i64,
    pub tv_nsec: i64,
}

/// A scripted clock. All values in nanoseconds.
#[derive(Clone, Debug, serde::Serialize, serde::Deserialize, PartialEq)]
pub struct ClockScript {
    pub realtime_base: i64,
    pub monotonic_base: i64,
    /// Advance per read (ns); the n-th read advances by step + (n % 7) * jitter.
    pub step: i64,
    pub jitter: i64,
    /// (read index, delta ns applied to REALTIME), may be negative (clock set back).
    pub realtime_jumps: Vec<(u64, i64)>,
    /// (read index, delta ns applied to MONOTONIC), always >= 0.
    pub monotonic_jumps: Vec<(u64, i64)>,
}

impl ClockScript {
    pub fn canonical() -> Self {
        ClockScript {
            realtime_base: 1_700_000_000_000_000_000,
            monotonic_base: 1_000_000_000,
            step: 1_000,
            jitter: 0,
            realtime_jumps: vec![],
            monotonic_jumps: vec![],
        }
    }
}

pub struct SimClock {
    script: ClockScript,
    reads: u64,
    realtime: i64,
    monotonic: i64,
}

thread_local! {
    static HASH_SEED: Cell<u64> = const { Cell::new(0) };
    static HASH_ACTIVE: Cell<bool> = const { Cell::new(false) };
    static HASH_CTR: Cell<u64> = const { Cell::new(0) };
    static GETRANDOM_CALLS: Cell<u64> = const { Cell::new(0) };
    static CLOCK: RefCell<Option<SimClock>> = const { RefCell::new(None) };
    static CLOCK_READS: Cell<u64> = const { Cell::new(0) };
    static CLOCK_ADVANCE_NS: Cell<i64> = const { Cell::new(0) };
}

/// Entropy seam. std calls this once per thread, for 16 bytes, the first time a RandomState
/// is created on that thread.
#[unsafe(no_mangle)]
pub unsafe extern "C" fn getrandom(buf: *mut c_void, len: usize, flags: u32) -> isize {
    let active = HASH_ACTIVE.try_with(|a| a.get()).unwrap_or(false);
    if active {
        let seed = HASH_SEED.with(|s| s.get());
        let mut ctr = HASH_CTR.with(|c| c.get());
        GETRANDOM_CALLS.with(|c| c.set(c.get() + 1));
        let out = buf as *mut u8;
        let mut i = 0usize;
        while i < len {
            let mut x = crate::prng::mix(seed, ctr);
            let w = crate::prng::splitmix(&mut x);
            ctr += 1;
            let bytes = w.to_le_bytes();
            let mut j = 0;
            while j < 8 && i < len {
                unsafe { *out.add(i) = bytes[j] };
                i += 1;
                j += 1;
            }
        }
        HASH_CTR.with(|c| c.set(ctr));
        len as isize
    } else {
        unsafe { syscall(SYS_GETRANDOM, buf, len, flags as c_long) as isize }
    }
}

#[unsafe(no_mangle)]
pub unsafe extern "C" fn clock_gettime(clk: c_int, ts: *mut Timespec) -> c_int {
    let handled = CLOCK
        .try_with(|c| {
            let mut c = match c.try_borrow_mut() {
                Ok(c) => c,
                Err(_) => return false,
            };
            if let Some(sc) = c.as_mut() {
                let n = sc.reads;
                sc.reads += 1;
                let adv = sc.script.step + (n % 7) as i64 * sc.script.jitter;
                sc.realtime += adv;
                sc.monotonic += adv;
                let mut total = adv;
                for (at, d) in &sc.script.realtime_jumps {
                    if *at == n {
                        sc.realtime += *d;
                    }
                }
                for (at, d) in &sc.script.monotonic_jumps {
                    if *at == n {
                        sc.monotonic += *d;
                        total += *d;
                    }
                }
                CLOCK_READS.with(|r| r.set(r.get() + 1));
                CLOCK_ADVANCE_NS.with(|r| r.set(r.get() + total));
                // CLOCK_REALTIME = 0, CLOCK_REALTIME_COARSE = 5; everything else is treated
                // as monotonic (MONOTONIC = 1, MONOTONIC_RAW = 4, BOOTTIME = 7, ...).
                let v = if clk == 0 || clk == 5 { sc.realtime } else { sc.monotonic };
                unsafe {
                    (*ts).tv_sec = v.div_euclid(1_000_000_000);
                    (*ts).tv_nsec = v.rem_euclid(1_000_000_000);
                }
                true
            } else {
                false
            }
        })
        .unwrap_or(false);
    if handled {
        0
    } else {
        unsafe { syscall(SYS_CLOCK_GETTIME, clk as c_long, ts) as c_int }
    }
}

/// Wall time of the harness itself, read with the raw syscall so it never touches a
/// simulated clock. Used for evidence only, never for decisions.
pub fn real_monotonic_ns() -> u64 {
    let mut ts = Timespec { tv_sec: 0, tv_nsec: 0 };
    unsafe { syscall(SYS_CLOCK_GETTIME, 1 as c_long, &mut ts as *mut Timespec) };
    ts.tv_sec as u64 * 1_000_000_000 + ts.tv_nsec as u64
}

/// Statistics a simulated thread reports back when it finishes.
#[derive(Clone, Copy, Debug, Default)]
pub struct SeamStats {
    pub getrandom_calls: u64,
    pub clock_reads: u64,
    pub clock_advance_ns: i64,
}

/// Arm the seams on the *current* thread. Must be the first thing a simulated thread does
/// (before any HashMap is created on it).
pub fn arm(hash_seed: u64, clock: &ClockScript) {
    HASH_SEED.with(|s| s.set(hash_seed));
    HASH_CTR.with(|c| c.set(0));
    HASH_ACTIVE.with(|a| a.set(true));
    CLOCK.with(|c| {
        *c.borrow_mut() = Some(SimClock {
            script: clock.clone(),
            reads: 0,
            realtime: clock.realtime_base,
            monotonic: clock.monotonic_base,
        })
    });
}

pub fn disarm() -> SeamStats {
    HASH_ACTIVE.with(|a| a.set(false));
    CLOCK.with(|c| *c.borrow_mut() = None);
    SeamStats {
        getrandom_calls: GETRANDOM_CALLS.with(|c| c.get()),
        clock_reads: CLOCK_READS.with(|c| c.get()),
        clock_advance_ns: CLOCK_ADVANCE_NS.with(|c| c.get()),
    }
}

pub const SIM_STACK: usize = 64 << 20;

/// Run `f` on a fresh simulated thread (fresh thread-locals, hence fresh hash keys derived
/// from `hash_seed`; scripted clock; big lazily-committed stack) and return its result.
pub fn on_sim_thread<T: Send + 'static>(
    hash_seed: u64,
    clock: ClockScript,
    f: impl FnOnce() -> T + Send + 'static,
) -> (T, SeamStats) {
    let h = std::thread::Builder::new()
        .stack_size(SIM_STACK)
        .spawn(move || {
            arm(hash_seed, &clock);
            let r = f();
            let st = disarm();
            (r, st)
        })
        .expect("spawn sim thread");
    match h.join() {
        Ok(v) => v,
        Err(_) => {
            eprintln!("HARNESS-ERROR: simulated thread panicked outside the system under test");
            std::process::exit(2);
        }
    }
}

/// Canary: the iteration order of a std HashMap with 8 fixed keys on this thread.
pub fn canary_order() -> String {
    let mut m = std::collections::HashMap::new();
    for k in ["a", "b", "c", "d", "e", "f", "g", "h"] {
        m.insert(k, 0u8);
    }
    m.keys().copied().collect::<Vec<_>>().join("")
}

/// Self-test of both seams; any failure is a harness error (exit 2), never a verdict.
pub fn selftest() -> Result<String, String> {
    let c = ClockScript::canonical();
    let (a1, _) = on_sim_thread(1, c.clone(), canary_order);
    let (a2, _) = on_sim_thread(1, c.clone(), canary_order);
    let (b, _) = on_sim_thread(2, c.clone(), canary_order);
    let (d, _) = on_sim_thread(3, c.clone(), canary_order);
    if a1 != a2 {
        return Err(format!("hash seam not deterministic: {a1} vs {a2}"));
    }
    if a1 == b && a1 == d {
        return Err(format!("hash seam has no effect: {a1} {b} {d}"));
    }
    // clock seam
    let mut cs = ClockScript::canonical();
    cs.realtime_base = 42_000_000_000;
    cs.step = 5;
    let ((t1, t2, i1, i2), st) = on_sim_thread(1, cs, || {
        let t1 = std::time::SystemTime::now()
            .duration_since(std::time::UNIX_EPOCH)
            .unwrap()
            .as_nanos();
        let i1 = std::time::Instant::now();
        let i2 = std::time::Instant::now();
        let t2 = std::time::SystemTime::now()
            .duration_since(std::time::UNIX_EPOCH)
            .unwrap()
            .as_nanos();
        (t1, t2, i1, i2)
    });
    if t1 != 42_000_000_005 || t2 != 42_000_000_020 {
        return Err(format!("clock seam (realtime) wrong: {t1} {t2}"));
    }
    if (i2 - i1).as_nanos() != 5 {
        return Err(format!("clock seam (monotonic) wrong: {:?}", i2 - i1));
    }
    if st.clock_reads != 4 {
        return Err(format!("clock read count wrong: {}", st.clock_reads));
    }
    // pass-through outside simulated threads must be the real clock
    let r = std::time::SystemTime::now()
        .duration_since(std::time::UNIX_EPOCH)
        .unwrap()
        .as_secs();
    if r < 1_600_000_000 {
        return Err(format!("pass-through clock looks simulated: {r}"));
    }
    Ok(format!("hash orders: seed1={a1} seed2={b} seed3={d}; clock ok"))
}

mod c02;
mod c02main;
mod c02x;
mod c03;
mod c19;
mod c19model;
mod cli;
mod common;
mod hast;
mod pgen;
mod prng;
mod sched;
mod seams;
mod session;
mod zygote;

fn usage() -> ! {
    eprintln!("usage: blots-sim <selftest|c03|replay> ...");
    std::process::exit(2);
}

fn pristine_handler(payload: &str) -> String {
    match serde_json::from_str::<serde_json::Value>(payload) {
        Ok(req) if req["kind"] == "c02" => c02::pristine_handler(&req),
        _ => String::new(),
    }
}

fn main() {
    session::install_panic_hook();
    // before anything else: fork the pristine-process executor while single-threaded
    zygote::start(pristine_handler);
    let args: Vec<String> = std::env::args().collect();
    if args.len() < 2 {
        usage();
    }
    // the seams must work, or nothing below means anything
    match seams::selftest() {
        Ok(msg) => {
            if args[1] == "selftest" {
                println!("selftest ok: {}", msg);
                std::process::exit(0);
            }
        }
        Err(e) => {
            eprintln!("HARNESS-ERROR: seam self-test failed: {}", e);
            std::process::exit(2);
        }
    }
    let code = match args[1].as_str() {
        "c03" => {
            let tier = args.get(2).map(|s| s.as_str()).unwrap_or("quick");
            let n: u64 = match std::env::var("VERIF_C03_SESSIONS").ok().and_then(|s| s.parse().ok()) {
                Some(n) => n,
                None => {
                    if tier == "thorough" { 36_000 } else { 1_500 }
                }
            };
            c03::main_batch(tier, n)
        }
        "c02" => {
            let tier = args.get(2).map(|s| s.as_str()).unwrap_or("quick");
            c02main::main_batch(tier)
        }
        "c19" => {
            let tier = args.get(2).map(|s| s.as_str()).unwrap_or("quick");
            let n: u64 = match std::env::var("VERIF_C19_SCENARIOS").ok().and_then(|s| s.parse().ok()) {
                Some(n) => n,
                None => {
                    if tier == "thorough" { 12_000 } else { 300 }
                }
            };
            c19::main_batch(tier, n)
        }
        "shard" => {
            // internal: blots-sim shard <engine> <n> <k> <s> <outfile>
            let n: u64 = args[3].parse().unwrap();
            let k: u64 = args[4].parse().unwrap();
            let s: u64 = args[5].parse().unwrap();
            match args[2].as_str() {
                "c02" => c02::shard_main(n, k, s, &args[6]),
                "c03" => c03::shard_main(n, k, s, &args[6]),
                _ => usage(),
            }
            0
        }
        "replay" => {
            let path = args.get(2).unwrap_or_else(|| usage());
            let s = std::fs::read_to_string(path).unwrap_or_default();
            let doc: serde_json::Value = serde_json::from_str(&s).unwrap_or(serde_json::Value::Null);
            match doc["engine"].as_str() {
                Some("c03") => c03::replay(path),
                Some("c19") => c19::replay(path),
                Some("c02") => c02::replay(path),
                Some("c02x") => c02x::xreplay(path, &c19::cli_path(), &c19::shim_path()),
                _ => {
                    eprintln!("HARNESS-ERROR: unknown engine in {}", path);
                    2
                }
            }
        }
        _ => usage(),
    };
    std::process::exit(code);
}

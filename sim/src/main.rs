mod c03;
mod c19;
mod c19model;
mod cli;
mod common;
mod hast;
mod prng;
mod seams;
mod session;

fn usage() -> ! {
    eprintln!("usage: blots-sim <selftest|c03|replay> ...");
    std::process::exit(2);
}

fn main() {
    session::install_panic_hook();
    let args: Vec<String> = std::env::args().collect();
    if args.len() < 2 {
        usage();
    }
    // the seams must work, or nothing below means anything
    match seams::selftest() {
        Ok(msg) => {
            if args[1] == "selftest" {
                println!("selftest ok: {}", msg);
                std::process::exit(0);
            }
        }
        Err(e) => {
            eprintln!("HARNESS-ERROR: seam self-test failed: {}", e);
            std::process::exit(2);
        }
    }
    let code = match args[1].as_str() {
        "c03" => {
            let tier = args.get(2).map(|s| s.as_str()).unwrap_or("quick");
            let n: u64 = match std::env::var("VERIF_C03_SESSIONS").ok().and_then(|s| s.parse().ok()) {
                Some(n) => n,
                None => {
                    if tier == "thorough" { 60_000 } else { 300 }
                }
            };
            c03::main_batch(tier, n)
        }
        "c19" => {
            let tier = args.get(2).map(|s| s.as_str()).unwrap_or("quick");
            let n: u64 = match std::env::var("VERIF_C19_SCENARIOS").ok().and_then(|s| s.parse().ok()) {
                Some(n) => n,
                None => {
                    if tier == "thorough" { 4_000 } else { 60 }
                }
            };
            c19::main_batch(tier, n)
        }
        "replay" => {
            let path = args.get(2).unwrap_or_else(|| usage());
            let s = std::fs::read_to_string(path).unwrap_or_default();
            let doc: serde_json::Value = serde_json::from_str(&s).unwrap_or(serde_json::Value::Null);
            match doc["engine"].as_str() {
                Some("c03") => c03::replay(path),
                Some("c19") => c19::replay(path),
                _ => {
                    eprintln!("HARNESS-ERROR: unknown engine in {}", path);
                    2
                }
            }
        }
        _ => usage(),
    };
    std::process::exit(code);
}

//! C02 batch driver: in-process engine c02 + cross-process engine c02x, one evidence file.

use crate::c02::*;
use crate::c02x::*;
use crate::common::*;
use crate::prng::fnv64;
use serde_json::json;
use std::sync::{Arc, Mutex};

#[derive(Default)]
struct XAgg {
    b: Batch,
    viols: Vec<(u64, XScenario, Viol)>,
}
impl Agg for XAgg {
    fn merge(&mut self, o: Self) {
        self.b.merge(o.b);
        self.viols.extend(o.viols);
    }
}

pub fn main_batch(tier: &str) -> i32 {
    let seed = verif_seed();
    let programs: u64 = std::env::var("VERIF_C02_PROGRAMS").ok().and_then(|s| s.parse().ok()).unwrap_or(if tier == "thorough" { 400_000 } else { 4_000 });
    let xprograms: u64 = std::env::var("VERIF_C02X_PROGRAMS").ok().and_then(|s| s.parse().ok()).unwrap_or(if tier == "thorough" { 10_000 } else { 150 });
    println!("VERIF_SEED={} engine=c02+c02x tier={} programs={} cli_programs={} workers={}", seed, tier, programs, xprograms, workers());
    let t0 = crate::seams::real_monotonic_ns();
    let mut res = run_batch(programs);
    // cross-process part
    let cli = crate::c19::cli_path();
    let shim = crate::c19::shim_path();
    let mut xviol_out: Vec<Violation> = vec![];
    if xprograms > 0 {
        if !std::path::Path::new(&cli).exists() || !std::path::Path::new(&shim).exists() {
            eprintln!("HARNESS-ERROR: CLI or shim missing ({} / {})", cli, shim);
            return 2;
        }
        let keep = std::env::var("VERIF_HASHES").is_ok();
        let (cli2, shim2) = (cli.clone(), shim.clone());
        let xa: XAgg = run_pool(xprograms, workers(), move |i, a: &mut XAgg| {
            if let Some((sc, v)) = xrun_one(seed, i, &mut a.b, &cli2, &shim2, keep) {
                a.viols.push((i, sc, v));
            }
        });
        let XAgg { b, mut viols } = xa;
        viols.sort_by_key(|v| v.0);
        let mut seen = std::collections::BTreeSet::new();
        for (run, sc, v) in viols.iter() {
            if !seen.insert(v.clause.clone()) || xviol_out.len() >= 5 {
                continue;
            }
            let min = xshrink(sc, &v.clause, &cli, &shim);
            let ex = xexecute(&min, &cli, &shim);
            let mv = xjudge(&min, &ex).unwrap_or_else(|| v.clone());
            let name = format!("C02-x-{}-{}-{:08x}", seed, run, fnv64(mv.detail.as_bytes()) as u32);
            let path = write_replay(&name, &xreplay_doc(&min, &mv, &ex, seed, *run));
            xviol_out.push(Violation { property: "C02".into(), clause: mv.clause.clone(), detail: mv.detail.clone(), signature: xsignature(&mv), run: *run, replay: Some(path) });
        }
        if keep {
            // append the c02x hashes to the hash file written by run_batch
            if let Ok(p) = std::env::var("VERIF_HASHES") {
                let mut txt = std::fs::read_to_string(&p).unwrap_or_default();
                for (k, v) in &b.run_hashes {
                    txt.push_str(&format!("{}:{:016x}\n", k, v));
                }
                let _ = std::fs::write(&p, txt);
            }
        }
        res.agg.merge(b);
        crate::cli::cleanup_sandboxes();
    }
    let wall = (crate::seams::real_monotonic_ns() - t0) as f64 / 1e9;
    let c = &res.agg.c;
    let execs = c.get("executions") + c.get("x_cli_runs");
    let mut all: Vec<Violation> = res.violations.clone();
    all.extend(xviol_out);
    let mut extra = serde_json::Map::new();
    extra.insert("programs".into(), json!(c.get("programs")));
    extra.insert("cli_programs".into(), json!(c.get("x_programs")));
    extra.insert("simulated_runs".into(), json!(execs));
    extra.insert("runs_per_hour".into(), json!((execs as f64 / wall.max(1e-9) * 3600.0) as u64));
    extra.insert("simulated_time_covered_s".into(), json!(res.agg.clock_ns as f64 / 1e9));
    extra.insert("distinct_interleavings".into(), json!(c.distinct_count("interleavings")));
    extra.insert("distinct_hash_seeds".into(), json!(c.distinct_count("hash_seeds") + c.distinct_count("x_hash_seeds")));
    extra.insert(
        "faults_fired".into(),
        json!({
            "injected_step_in_noise": c.get("fault_fired:injected_step_in_noise"),
            "call_depth_in_noise": c.get("fault_fired:call_depth_in_noise"),
            "preemption_yield": c.get("fault_fired:preemption_yield"),
            "cli_short_transfer": c.get("x_fault_fired:short_transfer"),
        }),
    );
    extra.insert("seeds".into(), json!(c.get("programs") + c.get("x_programs")));
    extra.insert("references_in_pristine_process".into(), json!(c.get("reference_in_pristine_process")));
    {
        let mut rare = serde_json::Map::new();
        for (k, v) in &c.n {
            if let Some(kind) = k.strip_prefix("rare:") {
                rare.insert(kind.to_string(), json!(v));
            }
        }
        extra.insert("rare_conditions_hit".into(), serde_json::Value::Object(rare));
        let mut envs = serde_json::Map::new();
        for (k, v) in &c.n {
            if let Some(kind) = k.strip_prefix("env:") {
                envs.insert(kind.to_string(), json!(v));
            }
        }
        extra.insert("environments_run".into(), serde_json::Value::Object(envs));
    }
    extra.insert("sut_panics".into(), json!(c.get("sut_panics")));
    extra.insert("counters".into(), c.to_json());
    extra.insert(
        "real_vs_stub".into(),
        json!({
            "real": ["blots-core parser, evaluator, environment, heap, built-ins (print/time_now excluded), serialiser", "c02x: the blots binary, main.rs, clap, std I/O, glibc"],
            "stub": ["statement loop in the in-process sessions (cross-checked against the real main.rs by c02x)", "OS entropy (getrandom seam)", "clocks (clock_gettime seam)", "thread scheduling (parked real threads released one at a time)"],
            "not_run": ["rustyline REPL", "blots-wasm"],
        }),
    );
    let mut samples = std::mem::take(&mut res.agg.samples);
    samples.sort_by_key(|s| s.0);
    Evidence {
        property: "C02".into(),
        tier: tier.into(),
        seed,
        level: "exploration".into(),
        evaluations: execs,
        distinct_nontrivial: c.distinct_count("nontrivial_pairs"),
        rule: "A case is one execution of a generated program (3..12 statements; numbers, strings, lists, records with static/dynamic/shorthand/spread keys, \
               closures, do-blocks, conditionals, broadcasting, via/into/where, higher-order and aggregate built-ins, random(k), depth probes near the 1000-call \
               limit, alias probes) in one constructed environment: other hash seed, scripted clock with jumps, unrelated noise on the same heap (with injected \
               failures and call-depth failures), earlier sessions on the same thread, 2..4 threads under the scheduler with statement-level and hook-level \
               preemption, evaluate-twice, let-abstraction; each compared statement by statement with the canonical reference execution. c02x runs generated \
               programs through the real CLI under 3..4 plans (hash seed, clock, ASLR, chunking, mode). distinct_nontrivial counts distinct (program shape, \
               environment kind) pairs in which noise, a preemption, another seed/clock or a metamorphic rewrite actually took effect, plus distinct CLI outputs."
            .into(),
        samples: samples.into_iter().map(|s| s.1).collect(),
        extra,
        assumptions: vec![
            "error messages, pointer Display forms, captured-scope order and profiling statistics are outside the comparison (they legitimately differ)".into(),
            "ThreadId and ASLR of the harness process are not controlled in multi-worker batches (nothing in /repo reads them)".into(),
            "seeded sampling: a clean batch is evidence, not proof".into(),
        ],
        wall_s: wall,
        violations: all.len() as u64,
    }
    .write();
    println!(
        "c02: programs={} executions={} cli_runs={} interleavings={} hash_seeds={} preemptions={} noise_faults={} nontrivial_pairs={} sut_panics={} wall={:.1}s",
        c.get("programs"),
        c.get("executions"),
        c.get("x_cli_runs"),
        c.distinct_count("interleavings"),
        c.distinct_count("hash_seeds"),
        c.get("fault_fired:preemption_yield"),
        c.get("fault_fired:injected_step_in_noise"),
        c.distinct_count("nontrivial_pairs"),
        c.get("sut_panics"),
        wall
    );
    let code = report("C02", &all);
    if code == 0 {
        println!("C02 OK");
    }
    code
}

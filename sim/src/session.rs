//! In-process session: the real parser, evaluator, environment, heap and serialiser of
//! blots-core, driven statement by statement the way `blots/src/main.rs` (REPL loop and
//! `evaluate_source`) and `blots-wasm` drive them. The ~15-line statement loop is the only
//! stub; everything a statement does is real code.

use blots_core::environment::Environment;
use blots_core::expressions::{evaluate_pairs, validate_portable_value};
use blots_core::heap::Heap;
use blots_core::parser::{Rule, get_pairs};
use blots_core::values::{LambdaArg, SerializableValue, Value};
use blots_core::verif_hooks::{self, Site};
use indexmap::IndexMap;
use std::cell::{Cell, RefCell};
use std::collections::BTreeMap;
use std::panic::{AssertUnwindSafe, catch_unwind};
use std::rc::Rc;

#[derive(Clone, Copy, Debug, PartialEq, Eq, Hash, serde::Serialize, serde::Deserialize)]
pub enum Status {
    Ok,
    Err,
    ParseErr,
    Panic,
    /// The session died (panic) before this statement; nothing was run.
    NotRun,
}

impl Status {
    pub fn failed(self) -> bool {
        !matches!(self, Status::Ok)
    }
    pub fn short(self) -> &'static str {
        match self {
            Status::Ok => "ok",
            Status::Err => "err",
            Status::ParseErr => "parse",
            Status::Panic => "panic",
            Status::NotRun => "notrun",
        }
    }
}

#[derive(Clone, Debug)]
pub struct Outcome {
    pub status: Status,
    /// Canonical rendering of the statement's value (Ok only; None if it cannot be serialised).
    pub canon: Option<String>,
    pub err: Option<String>,
    pub steps: u64,
    pub call_steps: u64,
    pub fault_fired: Option<(u64, Site)>,
    pub depth_error: bool,
    pub yields: u64,
    /// an `output` declaration whose value is not portable (main.rs: `[output error]`, exit 1)
    pub output_error: bool,
}

// ---------------------------------------------------------------------------------------
// Hook state (thread-local, decisions fixed before execution; never draws randomness)
// ---------------------------------------------------------------------------------------

#[derive(Default)]
pub struct HookState {
    pub counting: bool,
    pub step: u64,
    pub call_steps: u64,
    pub inject_at: Option<u64>,
    pub fired: Option<(u64, Site)>,
    /// Steps (within the current statement) at which to hand control to the scheduler.
    pub yield_at: Vec<u64>,
    pub yields: u64,
    /// Count of all hook points incl. heap-cell accesses (yield-only sites), and the points of
    /// that finer count at which to hand control to the scheduler.
    pub hstep: u64,
    pub yield_heap_at: Vec<u64>,
    /// dense preemption: yield at every n-th hook point of any kind (0 = off)
    pub yield_every: u64,
}

thread_local! {
    pub static HOOK: RefCell<HookState> = RefCell::new(HookState::default());
    static YIELDER: RefCell<Option<Box<dyn FnMut()>>> = const { RefCell::new(None) };
    pub static IN_SUT: Cell<bool> = const { Cell::new(false) };
}

pub fn install_hooks() {
    verif_hooks::install(Box::new(|site| {
        let (inject, do_yield) = HOOK.with(|h| {
            let mut h = h.borrow_mut();
            if !h.counting {
                return (false, false);
            }
            h.hstep += 1;
            if site == Site::Heap {
                // yield-only site: never a fault point, not part of the fault-step numbering
                let hs = h.hstep;
                let y = h.yield_heap_at.contains(&hs) || (h.yield_every > 0 && hs % h.yield_every == 0);
                if y {
                    h.yields += 1;
                }
                return (false, y);
            }
            h.step += 1;
            if site == Site::Call {
                h.call_steps += 1;
            }
            let step = h.step;
            let y = h.yield_at.contains(&step) || (h.yield_every > 0 && h.hstep % h.yield_every == 0);
            if y {
                h.yields += 1;
            }
            if h.inject_at == Some(step) && h.fired.is_none() {
                h.fired = Some((step, site));
                return (true, y);
            }
            (false, y)
        });
        if do_yield {
            // Park this thread and let the scheduler pick who runs next. The evaluator holds
            // no lock and no RefCell borrow at a hook site.
            let mut yl = YIELDER.with(|y| y.borrow_mut().take());
            if let Some(f) = yl.as_mut() {
                f();
            }
            YIELDER.with(|y| *y.borrow_mut() = yl);
        }
        if inject {
            Err(blots_core::error::RuntimeError::new("injected fault (verif)".to_string()))
        } else {
            Ok(())
        }
    }));
}

pub fn set_yielder(f: Option<Box<dyn FnMut()>>) {
    YIELDER.with(|y| *y.borrow_mut() = f);
}

/// Install a process-wide panic hook that stays silent for panics inside the system under
/// test (they are caught and recorded) and loud for everything else.
pub fn install_panic_hook() {
    let default = std::panic::take_hook();
    std::panic::set_hook(Box::new(move |info| {
        let quiet = IN_SUT.try_with(|f| f.get()).unwrap_or(false);
        if !quiet {
            default(info);
        }
    }));
}

// ---------------------------------------------------------------------------------------
// Canonical values
// ---------------------------------------------------------------------------------------

pub fn canon_sv(v: &SerializableValue, out: &mut String) {
    match v {
        SerializableValue::Number(n) => {
            if n.is_nan() {
                out.push_str("nan");
            } else {
                out.push_str(&format!("n{:016x}", n.to_bits()));
            }
        }
        SerializableValue::Bool(b) => out.push_str(if *b { "T" } else { "F" }),
        SerializableValue::Null => out.push('N'),
        SerializableValue::String(s) => out.push_str(&format!("{:?}", s)),
        SerializableValue::List(xs) => {
            out.push('[');
            for (i, x) in xs.iter().enumerate() {
                if i > 0 {
                    out.push(',');
                }
                canon_sv(x, out);
            }
            out.push(']');
        }
        SerializableValue::Record(r) => {
            out.push('{');
            for (i, (k, x)) in r.iter().enumerate() {
                if i > 0 {
                    out.push(',');
                }
                out.push_str(&format!("{:?}:", k));
                canon_sv(x, out);
            }
            out.push('}');
        }
        SerializableValue::Lambda(l) => {
            // args + body with captured values inlined; NOT the display name, NOT scope order
            out.push_str("fn(");
            for (i, a) in l.args.iter().enumerate() {
                if i > 0 {
                    out.push(',');
                }
                match a {
                    LambdaArg::Required(n) => out.push_str(n),
                    LambdaArg::Optional(n) => {
                        out.push_str(n);
                        out.push('?');
                    }
                    LambdaArg::Rest(n) => {
                        out.push_str("...");
                        out.push_str(n);
                    }
                }
            }
            out.push_str(")=>");
            out.push_str(&l.body);
        }
        SerializableValue::BuiltIn(n) => {
            out.push_str("builtin:");
            out.push_str(n);
        }
    }
}

thread_local! {
    /// Number of times reading a value back from the heap panicked on this thread (a binding
    /// that points at a released or foreign cell). Observation code is part of the harness, but
    /// the panic is the evaluator's data structure failing: it is reported as an observation,
    /// never as a harness error.
    pub static OBSERVE_PANICS: Cell<u64> = const { Cell::new(0) };
}

/// Run harness code that reads evaluator data structures; a panic inside is caught.
pub fn guarded<T>(f: impl FnOnce() -> T) -> Option<T> {
    let was = IN_SUT.with(|x| x.replace(true));
    let r = catch_unwind(AssertUnwindSafe(f));
    IN_SUT.with(|x| x.set(was));
    match r {
        Ok(v) => Some(v),
        Err(_) => {
            OBSERVE_PANICS.with(|c| c.set(c.get() + 1));
            None
        }
    }
}

pub const UNREADABLE: &str = "<unreadable: reading this value back from the heap panics>";

pub fn canon_value(v: &Value, heap: &Heap) -> Option<String> {
    match guarded(|| SerializableValue::from_value(v, heap)) {
        Some(Ok(sv)) => {
            let mut s = String::new();
            canon_sv(&sv, &mut s);
            Some(s)
        }
        Some(Err(_)) => None,
        None => Some(UNREADABLE.to_string()),
    }
}

/// Positions of functions inside a serialisable value, as access paths relative to a name.
pub fn function_paths(v: &SerializableValue, prefix: &str, depth: usize, out: &mut Vec<(String, Vec<LambdaArg>)>) {
    if depth > 3 || out.len() >= 6 {
        return;
    }
    match v {
        SerializableValue::Lambda(l) => out.push((prefix.to_string(), l.args.clone())),
        SerializableValue::List(xs) => {
            for (i, x) in xs.iter().enumerate().take(4) {
                function_paths(x, &format!("{}[{}]", prefix, i), depth + 1, out);
            }
        }
        SerializableValue::Record(r) => {
            for (k, x) in r.iter().take(4) {
                if !k.contains('"') && !k.contains('\n') {
                    function_paths(x, &format!("{}[\"{}\"]", prefix, k), depth + 1, out);
                }
            }
        }
        _ => {}
    }
}

// ---------------------------------------------------------------------------------------
// Session
// ---------------------------------------------------------------------------------------

pub struct Session {
    pub heap: Rc<RefCell<Heap>>,
    pub env: Rc<Environment>,
    pub dead: Cell<bool>,
    pub outputs: RefCell<IndexMap<String, Option<String>>>,
    pub outputs_json: RefCell<IndexMap<String, serde_json::Value>>,
    pub output_errors: Cell<u32>,
}

pub struct EvalCfg {
    pub depth0: usize,
    pub inject_at: Option<u64>,
    pub yield_at: Vec<u64>,
    pub yield_heap_at: Vec<u64>,
    pub yield_every: u64,
}

impl Default for EvalCfg {
    fn default() -> Self {
        EvalCfg { depth0: 0, inject_at: None, yield_at: vec![], yield_heap_at: vec![], yield_every: 0 }
    }
}

impl Session {
    /// `inputs_json`: a JSON object whose members become the `inputs` record (as the CLI does).
    pub fn new(inputs_json: Option<&str>) -> Session {
        let heap = Rc::new(RefCell::new(Heap::new()));
        let env = Rc::new(Environment::new());
        let mut map: IndexMap<String, Value> = IndexMap::new();
        if let Some(js) = inputs_json {
            if let Ok(serde_json::Value::Object(obj)) = serde_json::from_str::<serde_json::Value>(js) {
                for (k, v) in obj.iter() {
                    let sv = SerializableValue::from_json(v);
                    if let Ok(val) = sv.to_value(&mut heap.borrow_mut()) {
                        map.insert(k.clone(), val);
                    }
                }
            }
        }
        let rec = heap.borrow_mut().insert_record(map);
        env.insert("inputs".to_string(), rec);
        Session { heap, env, dead: Cell::new(false), outputs: RefCell::new(IndexMap::new()), outputs_json: RefCell::new(IndexMap::new()), output_errors: Cell::new(0) }
    }

    pub fn root(&self) -> BTreeMap<String, Value> {
        self.env.iter().collect()
    }

    pub fn canon_of(&self, v: &Value) -> Option<String> {
        match self.heap.try_borrow() {
            Ok(h) => canon_value(v, &h),
            Err(_) => Some(UNREADABLE.to_string()),
        }
    }

    pub fn serializable_of(&self, v: &Value) -> Option<SerializableValue> {
        // a panic can leave the RefCell borrowed; try_borrow keeps the harness alive
        let heap = self.heap.try_borrow().ok()?;
        guarded(|| SerializableValue::from_value(v, &heap).ok()).flatten()
    }

    /// Evaluate one source text (one or more statements). Returns one Outcome per
    /// non-comment statement, in order. Mirrors main.rs's loop: expression statements and
    /// output declarations; continues after a failing statement (REPL / embedding behaviour).
    /// `after(session, index, outcome)` runs after every statement (observation point).
    pub fn eval_source(
        &self,
        src: &str,
        cfgs: &mut dyn FnMut(usize) -> EvalCfg,
        after: &mut dyn FnMut(&Session, usize, &Outcome),
    ) -> Vec<Outcome> {
        let mut outs = vec![];
        if self.dead.get() {
            return outs;
        }
        IN_SUT.with(|f| f.set(true));
        let parsed = catch_unwind(AssertUnwindSafe(|| get_pairs(src)));
        IN_SUT.with(|f| f.set(false));
        let pairs = match parsed {
            Ok(Ok(p)) => p,
            Ok(Err(e)) => {
                outs.push(Outcome {
                    status: Status::ParseErr,
                    canon: None,
                    err: Some(e.to_string()),
                    steps: 0,
                    call_steps: 0,
                    fault_fired: None,
                    depth_error: false,
                    yields: 0,
                    output_error: false,
                });
                return outs;
            }
            Err(_) => {
                self.dead.set(true);
                outs.push(Outcome {
                    status: Status::Panic,
                    canon: None,
                    err: Some("panic in parser".into()),
                    steps: 0,
                    call_steps: 0,
                    fault_fired: None,
                    depth_error: false,
                    yields: 0,
                    output_error: false,
                });
                return outs;
            }
        };
        let mut idx = 0usize;
        for pair in pairs {
            if pair.as_rule() != Rule::statement {
                continue;
            }
            let Some(inner) = pair.into_inner().next() else { continue };
            let rule = inner.as_rule();
            if rule == Rule::comment {
                continue;
            }
            if self.dead.get() {
                outs.push(Outcome {
                    status: Status::NotRun,
                    canon: None,
                    err: None,
                    steps: 0,
                    call_steps: 0,
                    fault_fired: None,
                    depth_error: false,
                    yields: 0,
                    output_error: false,
                });
                idx += 1;
                continue;
            }
            let cfg = cfgs(idx);
            idx += 1;
            // output name, as main.rs extracts it
            let mut out_name: Option<(String, bool)> = None; // (name, is_assignment)
            if rule == Rule::output_declaration {
                for p in inner.clone().into_inner() {
                    match p.as_rule() {
                        Rule::identifier => {
                            out_name = Some((p.as_str().to_string(), false));
                            break;
                        }
                        Rule::assignment => {
                            if let Some(ip) = p.into_inner().next() {
                                out_name = Some((ip.as_str().to_string(), true));
                            }
                            break;
                        }
                        _ => {}
                    }
                }
            }
            HOOK.with(|h| {
                let mut h = h.borrow_mut();
                h.counting = true;
                h.step = 0;
                h.call_steps = 0;
                h.inject_at = cfg.inject_at;
                h.fired = None;
                h.yield_at = cfg.yield_at.clone();
                h.yield_heap_at = cfg.yield_heap_at.clone();
                h.yield_every = cfg.yield_every;
                h.hstep = 0;
                h.yields = 0;
            });
            IN_SUT.with(|f| f.set(true));
            let heap = Rc::clone(&self.heap);
            let env = Rc::clone(&self.env);
            let res = catch_unwind(AssertUnwindSafe(|| {
                evaluate_pairs(inner.into_inner(), heap, env, cfg.depth0, src)
            }));
            IN_SUT.with(|f| f.set(false));
            let (steps, call_steps, fired, yields) = HOOK.with(|h| {
                let mut h = h.borrow_mut();
                h.counting = false;
                (h.step, h.call_steps, h.fired, h.yields)
            });
            let mut output_error = false;
            let o = match res {
                Ok(Ok(v)) => {
                    let canon = self.canon_of(&v);
                    if let Some((name, is_assign)) = &out_name {
                        // as main.rs: `output n` reads the binding, `output n = e` uses the result
                        let val = if *is_assign { Some(v) } else { self.env.get(name).or(Some(v)) };
                        if let Some(val) = val {
                            let ok = match self.heap.try_borrow() {
                                Ok(h) => guarded(|| validate_portable_value(&val, &h, &self.env).is_ok()).unwrap_or(false),
                                Err(_) => false,
                            };
                            if ok {
                                let c = self.canon_of(&val);
                                self.outputs.borrow_mut().insert(name.clone(), c);
                                if let Some(sv) = self.serializable_of(&val) {
                                    self.outputs_json.borrow_mut().insert(name.clone(), sv.to_json());
                                }
                            } else {
                                // main.rs: `[output error]` and exit 1
                                self.output_errors.set(self.output_errors.get() + 1);
                                output_error = true;
                                self.outputs.borrow_mut().insert(name.clone(), Some("<output error: not portable>".to_string()));
                            }
                        }
                    }
                    Outcome {
                        status: Status::Ok,
                        canon,
                        err: None,
                        steps,
                        call_steps,
                        fault_fired: fired,
                        depth_error: false,
                        yields,
                        output_error,
                    }
                }
                Ok(Err(e)) => {
                    let depth_error = e.message.contains("maximum call depth");
                    Outcome {
                        status: Status::Err,
                        canon: None,
                        err: Some(e.message.clone()),
                        steps,
                        call_steps,
                        fault_fired: fired,
                        depth_error,
                        yields,
                        output_error: false,
                    }
                }
                Err(_) => {
                    self.dead.set(true);
                    Outcome {
                        status: Status::Panic,
                        canon: None,
                        err: Some("panic in evaluator".into()),
                        steps,
                        call_steps,
                        fault_fired: fired,
                        depth_error: false,
                        yields,
                        output_error: false,
                    }
                }
            };
            after(self, idx - 1, &o);
            outs.push(o);
        }
        outs
    }

    /// Evaluate a probe expression with hooks not counting (never perturbs step numbering).
    /// Returns (status, canonical value). Error text is deliberately not returned.
    pub fn probe(&self, src: &str) -> (Status, Option<String>) {
        if self.dead.get() {
            return (Status::NotRun, None);
        }
        IN_SUT.with(|f| f.set(true));
        let heap = Rc::clone(&self.heap);
        let env = Rc::clone(&self.env);
        let res = catch_unwind(AssertUnwindSafe(|| -> Result<Option<Value>, ()> {
            let pairs = get_pairs(src).map_err(|_| ())?;
            let mut last = None;
            for pair in pairs {
                if pair.as_rule() != Rule::statement {
                    continue;
                }
                let Some(inner) = pair.into_inner().next() else { continue };
                if inner.as_rule() == Rule::comment {
                    continue;
                }
                let v = evaluate_pairs(inner.into_inner(), Rc::clone(&heap), Rc::clone(&env), 0, src)
                    .map_err(|_| ())?;
                last = Some(v);
            }
            Ok(last)
        }));
        IN_SUT.with(|f| f.set(false));
        match res {
            Ok(Ok(Some(v))) => (Status::Ok, self.canon_of(&v)),
            Ok(Ok(None)) => (Status::Ok, None),
            Ok(Err(())) => (Status::Err, None),
            Err(_) => {
                self.dead.set(true);
                (Status::Panic, None)
            }
        }
    }
}

/// blots-core appends a record to a process-global vector on every function call and never
/// trims it (only `--profile` reads it). A long-lived embedding simply lets it grow; the harness
/// does the same up to a bound, so that state which depends on its size stays observable, and
/// drops it beyond that to keep memory bounded.
pub fn trim_call_stats() {
    let too_big = blots_core::functions::FUNCTION_CALLS.lock().map(|v| v.len() > 1_000_000).unwrap_or(true);
    if too_big {
        blots_core::functions::clear_function_call_stats();
    }
}

//! Scheduler: simulated clients are real OS threads (each owns its `!Send` sessions), parked
//! on a baton and released one at a time. Exactly one simulated thread is runnable at any
//! instant, so the interleaving is the scheduler's decision, not the OS's. Decisions come
//! from a pre-materialised preference list, never from a PRNG at run time.

use crate::seams::{ClockScript, SIM_STACK, SeamStats, arm, disarm};
use std::sync::{Arc, Condvar, Mutex};

#[derive(Clone, Copy, PartialEq, Eq, Debug)]
enum Turn {
    Coordinator,
    Thread(usize),
}

struct State {
    turn: Turn,
    finished: Vec<bool>,
    /// Set when the running thread did not come back within the (real-time) grace period: it is
    /// blocked on something a parked thread holds (a lock kept across a hook point). Cooperative
    /// scheduling would hang there although real threads would merely contend, so everybody is
    /// released and the run finishes unscheduled; it is counted, and its schedule is void.
    free: bool,
}

pub struct Baton {
    m: Mutex<State>,
    cv: Condvar,
}

impl Baton {
    fn wait_for(&self, me: Turn) {
        let mut g = self.m.lock().unwrap();
        while g.turn != me && !g.free {
            g = self.cv.wait(g).unwrap();
        }
    }
    /// Coordinator side: wait for the baton, but not for ever. Returns false on timeout.
    fn wait_for_coordinator(&self, grace: std::time::Duration) -> bool {
        let mut g = self.m.lock().unwrap();
        while g.turn != Turn::Coordinator {
            let (g2, to) = self.cv.wait_timeout(g, grace).unwrap();
            g = g2;
            if to.timed_out() && g.turn != Turn::Coordinator {
                g.free = true;
                drop(g);
                self.cv.notify_all();
                return false;
            }
        }
        true
    }
    fn hand_to(&self, t: Turn) {
        let mut g = self.m.lock().unwrap();
        g.turn = t;
        drop(g);
        self.cv.notify_all();
    }
}

/// Handle given to a simulated thread's body.
pub struct Yielder {
    baton: Arc<Baton>,
    me: usize,
}

impl Yielder {
    /// Statement boundary or hook yield point: give the baton back and wait to be chosen again.
    pub fn yield_now(&self) {
        if self.baton.m.lock().unwrap().free {
            return;
        }
        self.baton.hand_to(Turn::Coordinator);
        self.baton.wait_for(Turn::Thread(self.me));
    }
    pub fn clone_handle(&self) -> Yielder {
        Yielder { baton: self.baton.clone(), me: self.me }
    }
}

/// Number of runs of this process in which the scheduler had to release all threads.
pub static STUCK_RUNS: std::sync::atomic::AtomicU64 = std::sync::atomic::AtomicU64::new(0);

pub struct ThreadSpec<T> {
    pub hash_seed: u64,
    pub clock: ClockScript,
    pub body: Box<dyn FnOnce(&Yielder) -> T + Send + 'static>,
}

/// Run the threads under the schedule. `prefs` is the pre-materialised preference list: at
/// decision d the (prefs[d % len] mod #unfinished)-th unfinished thread runs next.
/// Returns each thread's result, the sequence of decisions actually taken, and seam stats.
pub fn run_scheduled<T: Send + 'static>(threads: Vec<ThreadSpec<T>>, prefs: &[u8]) -> (Vec<T>, Vec<u8>, Vec<SeamStats>) {
    let n = threads.len();
    let baton = Arc::new(Baton { m: Mutex::new(State { turn: Turn::Coordinator, finished: vec![false; n], free: false }), cv: Condvar::new() });
    let mut handles = vec![];
    for (i, spec) in threads.into_iter().enumerate() {
        let b = baton.clone();
        let h = std::thread::Builder::new()
            .stack_size(SIM_STACK)
            .spawn(move || {
                arm(spec.hash_seed, &spec.clock);
                b.wait_for(Turn::Thread(i));
                let y = Yielder { baton: b.clone(), me: i };
                let r = (spec.body)(&y);
                let st = disarm();
                {
                    let mut g = b.m.lock().unwrap();
                    g.finished[i] = true;
                    g.turn = Turn::Coordinator;
                }
                b.cv.notify_all();
                (r, st)
            })
            .expect("spawn simulated thread");
        handles.push(h);
    }
    let mut decisions: Vec<u8> = vec![];
    let mut d = 0usize;
    loop {
        let unfinished: Vec<usize> = {
            let g = baton.m.lock().unwrap();
            (0..n).filter(|i| !g.finished[*i]).collect()
        };
        if unfinished.is_empty() {
            break;
        }
        let p = if prefs.is_empty() { 0 } else { prefs[d % prefs.len()] as usize };
        let pick = unfinished[p % unfinished.len()];
        decisions.push(pick as u8);
        d += 1;
        baton.hand_to(Turn::Thread(pick));
        if !baton.wait_for_coordinator(std::time::Duration::from_secs(20)) {
            // released: no further scheduling decisions; the threads run to completion
            STUCK_RUNS.fetch_add(1, std::sync::atomic::Ordering::Relaxed);
            break;
        }
    }
    let mut results = vec![];
    let mut stats = vec![];
    for h in handles {
        match h.join() {
            Ok((r, st)) => {
                results.push(r);
                stats.push(st);
            }
            Err(_) => {
                eprintln!("HARNESS-ERROR: simulated thread panicked outside the system under test");
                std::process::exit(2);
            }
        }
    }
    (results, decisions, stats)
}

//! Pristine-process executor. "Whatever the process" is one of the environments C02 quantifies
//! over, and the realistic way to break it is process-global state that sticks (a static cache,
//! a lazily initialised table). A long-lived harness process accumulates such state, so a
//! reference execution inside it would be polluted in the same way as the execution it is
//! compared with. The zygote is forked at the very start of main(), before any thread exists and
//! before the evaluator has run at all; for every request it forks a child that executes the
//! request in that untouched process image and returns the result over a pipe.

use std::fs::File;
use std::io::{Read, Write};
use std::os::fd::FromRawFd;
use std::sync::{Mutex, OnceLock};

unsafe extern "C" {
    fn fork() -> i32;
    fn pipe2(fds: *mut i32, flags: i32) -> i32;
    fn waitpid(pid: i32, status: *mut i32, options: i32) -> i32;
    fn _exit(code: i32) -> !;
    fn close(fd: i32) -> i32;
}

struct Chan {
    w: File,
    r: File,
}

static Z: OnceLock<Option<Mutex<Chan>>> = OnceLock::new();

fn read_exact_or_eof(r: &mut File, buf: &mut [u8]) -> bool {
    let mut got = 0;
    while got < buf.len() {
        match r.read(&mut buf[got..]) {
            Ok(0) => return false,
            Ok(n) => got += n,
            Err(e) if e.kind() == std::io::ErrorKind::Interrupted => continue,
            Err(_) => return false,
        }
    }
    true
}

fn send(w: &mut File, payload: &[u8]) -> bool {
    let len = (payload.len() as u64).to_le_bytes();
    w.write_all(&len).is_ok() && w.write_all(payload).is_ok() && w.flush().is_ok()
}

fn recv(r: &mut File) -> Option<Vec<u8>> {
    let mut len = [0u8; 8];
    if !read_exact_or_eof(r, &mut len) {
        return None;
    }
    let n = u64::from_le_bytes(len) as usize;
    let mut buf = vec![0u8; n];
    if !read_exact_or_eof(r, &mut buf) {
        return None;
    }
    Some(buf)
}

/// Must be called first thing in main(), while the process is single-threaded.
pub fn start(handler: fn(&str) -> String) {
    if std::env::var("VERIF_NO_ZYGOTE").is_ok() {
        let _ = Z.set(None);
        return;
    }
    let mut req = [0i32; 2];
    let mut resp = [0i32; 2];
    unsafe {
        if pipe2(req.as_mut_ptr(), 0o2000000) != 0 || pipe2(resp.as_mut_ptr(), 0o2000000) != 0 {
            let _ = Z.set(None);
            return;
        }
        let pid = fork();
        if pid < 0 {
            let _ = Z.set(None);
            return;
        }
        if pid == 0 {
            close(req[1]);
            close(resp[0]);
            zygote_main(File::from_raw_fd(req[0]), File::from_raw_fd(resp[1]), handler);
        }
        close(req[0]);
        close(resp[1]);
        let _ = Z.set(Some(Mutex::new(Chan { w: File::from_raw_fd(req[1]), r: File::from_raw_fd(resp[0]) })));
    }
}

fn zygote_main(mut r: File, mut w: File, handler: fn(&str) -> String) -> ! {
    loop {
        let Some(payload) = recv(&mut r) else { unsafe { _exit(0) } };
        let mut p = [0i32; 2];
        unsafe {
            if pipe2(p.as_mut_ptr(), 0o2000000) != 0 {
                send(&mut w, b"");
                continue;
            }
            let pid = fork();
            if pid == 0 {
                close(p[0]);
                let mut out = File::from_raw_fd(p[1]);
                let text = String::from_utf8_lossy(&payload).to_string();
                let resp = handler(&text);
                let _ = out.write_all(resp.as_bytes());
                let _ = out.flush();
                drop(out);
                _exit(0);
            }
            close(p[1]);
            let mut inp = File::from_raw_fd(p[0]);
            let mut buf = vec![];
            let _ = inp.read_to_end(&mut buf);
            if pid > 0 {
                let mut st = 0i32;
                waitpid(pid, &mut st, 0);
            }
            if !send(&mut w, &buf) {
                _exit(0);
            }
        }
    }
}

pub fn available() -> bool {
    matches!(Z.get(), Some(Some(_)))
}

/// Execute `payload` in a pristine process; None if the zygote is unavailable or the child died.
pub fn request(payload: &str) -> Option<String> {
    let z = Z.get()?.as_ref()?;
    let mut ch = z.lock().unwrap();
    if !send(&mut ch.w, payload.as_bytes()) {
        return None;
    }
    let resp = recv(&mut ch.r)?;
    if resp.is_empty() {
        return None;
    }
    String::from_utf8(resp).ok()
}

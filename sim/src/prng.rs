//! One integer decides everything: SplitMix64 -> xoshiro256**.
//! No global state, no dependency, no clock. A run's stream is a pure function of
//! (VERIF_SEED, engine tag, run index), independent of worker count.

#[derive(Clone, Debug)]
pub struct Rng {
    s: [u64; 4],
}

pub fn splitmix(x: &mut u64) -> u64 {
    *x = x.wrapping_add(0x9E37_79B9_7F4A_7C15);
    let mut z = *x;
    z = (z ^ (z >> 30)).wrapping_mul(0xBF58_476D_1CE4_E5B9);
    z = (z ^ (z >> 27)).wrapping_mul(0x94D0_49BB_1331_11EB);
    z ^ (z >> 31)
}

/// FNV-1a over bytes, used for tags and history hashes (stable, dependency-free).
pub fn fnv64(bytes: &[u8]) -> u64 {
    let mut h: u64 = 0xcbf2_9ce4_8422_2325;
    for b in bytes {
        h ^= *b as u64;
        h = h.wrapping_mul(0x0000_0100_0000_01B3);
    }
    h
}

pub fn mix(a: u64, b: u64) -> u64 {
    let mut x = a ^ b.rotate_left(32) ^ 0x5851_F42D_4C95_7F2D;
    let r = splitmix(&mut x);
    r ^ splitmix(&mut x)
}

impl Rng {
    pub fn new(seed: u64) -> Self {
        let mut x = seed;
        let s = [
            splitmix(&mut x),
            splitmix(&mut x),
            splitmix(&mut x),
            splitmix(&mut x),
        ];
        Rng { s }
    }

    /// Stream for run `i` of engine `tag` under master seed `seed`.
    pub fn derive(seed: u64, tag: &str, i: u64) -> Self {
        Rng::new(mix(mix(seed, fnv64(tag.as_bytes())), i))
    }

    pub fn next_u64(&mut self) -> u64 {
        let r = self.s[1].wrapping_mul(5).rotate_left(7).wrapping_mul(9);
        let t = self.s[1] << 17;
        self.s[2] ^= self.s[0];
        self.s[3] ^= self.s[1];
        self.s[1] ^= self.s[2];
        self.s[0] ^= self.s[3];
        self.s[2] ^= t;
        self.s[3] = self.s[3].rotate_left(45);
        r
    }

    /// Uniform in 0..n (n > 0).
    pub fn below(&mut self, n: u64) -> u64 {
        debug_assert!(n > 0);
        // multiply-shift; bias is irrelevant at these sizes
        ((self.next_u64() as u128 * n as u128) >> 64) as u64
    }

    pub fn usize_below(&mut self, n: usize) -> usize {
        self.below(n as u64) as usize
    }

    /// Inclusive range.
    pub fn range(&mut self, lo: i64, hi: i64) -> i64 {
        lo + self.below((hi - lo + 1) as u64) as i64
    }

    /// True with probability num/den.
    pub fn chance(&mut self, num: u64, den: u64) -> bool {
        self.below(den) < num
    }

    pub fn pick<'a, T>(&mut self, xs: &'a [T]) -> &'a T {
        &xs[self.usize_below(xs.len())]
    }

    pub fn pick_weighted(&mut self, weights: &[u32]) -> usize {
        let total: u64 = weights.iter().map(|w| *w as u64).sum();
        let mut r = self.below(total.max(1));
        for (i, w) in weights.iter().enumerate() {
            if r < *w as u64 {
                return i;
            }
            r -= *w as u64;
        }
        weights.len() - 1
    }

    pub fn shuffle<T>(&mut self, xs: &mut [T]) {
        for i in (1..xs.len()).rev() {
            let j = self.usize_below(i + 1);
            xs.swap(i, j);
        }
    }

    pub fn fork(&mut self) -> Rng {
        Rng::new(self.next_u64())
    }
}

//! Seeded generator of well-scoped multi-statement programs over the harness AST (used by
//! engines c02 / c02x). Programs need not be type-correct: the oracles are differential.

use crate::hast::*;
use crate::prng::Rng;

#[derive(Clone, Copy, PartialEq, Eq, Debug)]
pub enum T {
    Num,
    Str,
    Bool,
    LNum,
    LStr,
    Rec,
    Fun,
    /// list of values that have no natural order (records, lists, functions) mixed with others
    LX,
    LBool,
}

/// Argument kinds of the built-in signature table.
#[derive(Clone, Copy, PartialEq, Eq, Debug)]
pub enum A {
    N,
    /// small non-negative integer literal (sizes, counts, indices)
    Small,
    S,
    B,
    LN,
    LS,
    LX,
    LB,
    /// any list
    L,
    R,
    F,
    /// function returning a string
    FS,
    /// predicate on numbers
    P,
    /// anything
    X,
    /// delimiter-like short string literal
    Delim,
}

/// Every built-in except print / time_now, with the argument shapes it is meant for.
pub const SIGS: &[(&str, &[A], T)] = &[
    ("sqrt", &[A::N], T::Num), ("sin", &[A::N], T::Num), ("cos", &[A::N], T::Num), ("tan", &[A::N], T::Num),
    ("asin", &[A::N], T::Num), ("acos", &[A::N], T::Num), ("atan", &[A::N], T::Num), ("log", &[A::N], T::Num),
    ("log10", &[A::N], T::Num), ("exp", &[A::N], T::Num), ("abs", &[A::N], T::Num), ("floor", &[A::N], T::Num),
    ("ceil", &[A::N], T::Num), ("round", &[A::N], T::Num), ("round", &[A::N, A::Small], T::Num), ("trunc", &[A::N], T::Num),
    ("random", &[A::Small], T::Num),
    ("min", &[A::LN], T::Num), ("max", &[A::LN], T::Num), ("avg", &[A::LN], T::Num), ("sum", &[A::LN], T::Num),
    ("prod", &[A::LN], T::Num), ("median", &[A::LN], T::Num), ("median", &[A::N, A::N, A::N], T::Num),
    ("min", &[A::N, A::N], T::Num), ("max", &[A::N, A::N, A::N], T::Num), ("sum", &[A::N, A::N], T::Num),
    ("percentile", &[A::LN, A::Small], T::Num),
    ("range", &[A::Small], T::LNum), ("range", &[A::Small, A::Small], T::LNum),
    ("len", &[A::L], T::Num), ("len", &[A::S], T::Num), ("head", &[A::LN], T::Num), ("head", &[A::S], T::Str),
    ("tail", &[A::LN], T::LNum), ("tail", &[A::S], T::Str), ("tail", &[A::LX], T::LX),
    ("slice", &[A::LN, A::Small, A::Small], T::LNum), ("slice", &[A::S, A::Small, A::Small], T::Str),
    ("concat", &[A::LN, A::LN], T::LNum), ("concat", &[A::LX, A::L], T::LX), ("concat", &[A::LS, A::LS, A::LS], T::LStr),
    ("dot", &[A::LN, A::LN], T::Num),
    ("unique", &[A::LN], T::LNum), ("unique", &[A::LX], T::LX), ("unique", &[A::LS], T::LStr),
    ("sort", &[A::LN], T::LNum), ("sort", &[A::LX], T::LX), ("sort", &[A::LS], T::LStr),
    ("sort_by", &[A::LN, A::F], T::LNum), ("sort_by", &[A::LS, A::FS], T::LStr),
    ("reverse", &[A::LN], T::LNum), ("reverse", &[A::LX], T::LX), ("reverse", &[A::LS], T::LStr),
    ("any", &[A::LB], T::Bool), ("all", &[A::LB], T::Bool),
    ("map", &[A::LN, A::F], T::LNum), ("map", &[A::LN, A::FS], T::LStr), ("filter", &[A::LN, A::P], T::LNum),
    ("every", &[A::LN, A::P], T::Bool), ("some", &[A::LN, A::P], T::Bool),
    ("split", &[A::S, A::Delim], T::LStr), ("join", &[A::LS, A::Delim], T::Str), ("join", &[A::LN, A::Delim], T::Str),
    ("replace", &[A::S, A::Delim, A::Delim], T::Str), ("trim", &[A::S], T::Str), ("uppercase", &[A::S], T::Str), ("lowercase", &[A::S], T::Str),
    ("includes", &[A::S, A::Delim], T::Bool), ("includes", &[A::L, A::X], T::Bool),
    ("format", &[A::S, A::X], T::Str), ("format", &[A::S, A::X, A::X], T::Str),
    ("typeof", &[A::X], T::Str), ("arity", &[A::F], T::Num),
    ("keys", &[A::R], T::LStr), ("values", &[A::R], T::LX), ("entries", &[A::R], T::LX),
    ("group_by", &[A::LN, A::FS], T::Rec), ("count_by", &[A::LS, A::FS], T::Rec), ("group_by", &[A::LS, A::FS], T::Rec),
    ("flatten", &[A::LX], T::LX), ("zip", &[A::LN, A::LS], T::LX), ("zip", &[A::LN, A::LN, A::LN], T::LX), ("chunk", &[A::L, A::Small], T::LX),
    ("to_string", &[A::X], T::Str), ("to_number", &[A::S], T::Num), ("to_number", &[A::B], T::Num), ("to_bool", &[A::N], T::Bool),
    ("ugt", &[A::X, A::X], T::Bool), ("ult", &[A::X, A::X], T::Bool), ("ugte", &[A::N, A::N], T::Bool), ("ulte", &[A::X, A::X], T::Bool),
];

pub struct PGen<'a> {
    pub rng: &'a mut Rng,
    pub prefix: String,
    pub vars: Vec<(String, T)>,
    pub counter: usize,
    pub locals: Vec<(String, T)>,
    pub allow_depth_probe: bool,
    /// names referenced inside function bodies before they are bound (late binding); bound by a
    /// later statement
    pub promised: Vec<String>,
}

const ARITH: &[&str] = &["+", "-", "*", "/", "%"];
const CMP: &[&str] = &[".<", ".<=", ".==", ".!=", ".>", ".>="];

impl<'a> PGen<'a> {
    pub fn new(rng: &'a mut Rng, prefix: &str) -> Self {
        PGen { rng, prefix: prefix.to_string(), vars: vec![], counter: 0, locals: vec![], allow_depth_probe: true, promised: vec![] }
    }

    fn fresh(&mut self) -> String {
        let n = format!("{}{}", self.prefix, self.counter);
        self.counter += 1;
        n
    }

    fn var_of(&mut self, t: T) -> Option<E> {
        let mut c: Vec<String> = self.locals.iter().filter(|v| v.1 == t).map(|v| v.0.clone()).collect();
        c.extend(self.vars.iter().filter(|v| v.1 == t).map(|v| v.0.clone()));
        if c.is_empty() {
            None
        } else {
            let n: &String = self.rng.pick(&c);
            Some(id(n))
        }
    }

    fn num_lit(&mut self) -> E {
        match self.rng.below(13) {
            0 => numf("0.5"),
            1 => numf("2.25"),
            2 => numf("1e3"),
            3 => numf("0.1"),
            4 => num(-(self.rng.range(1, 9))),
            5 => numf("1_000"),
            6 => numf(*self.rng.pick(&["1234.5", "1e6", "0.00001", "123456789", "2500", "1e21"])),
            7 => numf(*self.rng.pick(&["1.3", "0.7", "9.9", "1.01", "0.3", "2.675"])),
            8 => match self.rng.below(4) {
                // not-a-number and the infinities
                0 => bin("/", num(0), num(0)),
                1 => bin("/", num(1), num(0)),
                2 => bin("-", id("inf"), id("inf")),
                _ => call(id("sqrt"), vec![num(-1)]),
            },
            _ => num(self.rng.range(0, 12)),
        }
    }
    fn str_lit(&mut self) -> E {
        st(*self.rng.pick(&["a", "b", "héllo wörld", "", "x y z", "k", "Zed", "a"]))
    }

    fn leaf(&mut self, t: T) -> E {
        if self.rng.chance(3, 5) {
            if let Some(v) = self.var_of(t) {
                return v;
            }
        }
        match t {
            T::Num => self.num_lit(),
            T::Str => self.str_lit(),
            T::Bool => E::Bool(self.rng.chance(1, 2)),
            T::LNum => E::List((0..self.rng.below(5)).map(|_| self.num_lit()).collect()),
            T::LStr => E::List((0..self.rng.below(4)).map(|_| self.str_lit()).collect()),
            T::Rec => E::Rec(vec![RK::Static("k".into(), self.num_lit()), RK::Static("m".into(), self.str_lit())]),
            T::Fun => match self.rng.below(4) {
                0 => id("abs"),
                1 => id("floor"),
                _ => lam(&["x"], bin("+", id("x"), self.num_lit())),
            },
            T::LX => self.unordered_list(0),
            T::LBool => E::List((0..self.rng.below(4)).map(|_| E::Bool(self.rng.chance(1, 2))).collect()),
        }
    }

    /// A list whose elements have no natural order: records, lists and functions, some fresh
    /// literals and some references to values allocated earlier.
    fn unordered_list(&mut self, d: u32) -> E {
        let n = self.rng.range(2, 5) as usize;
        let mut xs = vec![];
        for _ in 0..n {
            let e = match self.rng.below(8) {
                0 | 1 => E::Rec(vec![RK::Static("n".into(), self.num_lit())]),
                2 => E::List(vec![lam(&["q"], id("q"))]),
                3 => match self.var_of(T::Rec) {
                    Some(v) => v,
                    None => E::Rec(vec![RK::Static("k".into(), self.num_lit())]),
                },
                4 => match self.var_of(T::Fun) {
                    Some(v) => v,
                    None => lam(&["q"], bin("+", id("q"), self.num_lit())),
                },
                5 => match self.var_of(T::LX) {
                    Some(v) => v,
                    None => E::List(vec![E::Rec(vec![RK::Static("n".into(), self.num_lit())])]),
                },
                6 if d > 0 => self.expr(T::Rec, d - 1),
                _ => lam(&["q"], bin("*", id("q"), self.num_lit())),
            };
            xs.push(e);
        }
        E::List(xs)
    }

    fn arg(&mut self, a: A, d: u32) -> E {
        match a {
            A::N => self.expr(T::Num, d),
            A::Small => num(self.rng.range(0, 7)),
            A::S => self.expr(T::Str, d),
            A::B => self.expr(T::Bool, d),
            A::LN => self.expr(T::LNum, d),
            A::LS => self.expr(T::LStr, d),
            A::LX => self.expr(T::LX, d),
            A::LB => self.expr(T::LBool, d),
            A::L => {
                let t = *self.rng.pick(&[T::LNum, T::LStr, T::LX]);
                self.expr(t, d)
            }
            A::R => self.expr(T::Rec, d),
            A::F => self.expr(T::Fun, d),
            A::FS => match self.rng.below(7) {
                // key functions that (wrongly) return something other than a string: a list, a
                // record, a function, a number
                3 => lam(&["v"], E::List(vec![id("v")])),
                4 => lam(&["v"], E::Rec(vec![RK::Static("k".into(), id("v"))])),
                5 => lam(&["v"], lam(&["w"], id("v"))),
                6 => lam(&["v"], bin("%", id("v"), num(2))),
                0 => id("to_string"),
                1 => lam(&["v"], call(id("typeof"), vec![id("v")])),
                _ => lam(&["v"], cond(bin(".==", call(id("typeof"), vec![id("v")]), st("number")), st("num"), st("other"))),
            },
            A::P => self.pred(d),
            A::X => self.any(d),
            A::Delim => st(*self.rng.pick(&[",", " ", "", "a", "-"])),
        }
    }

    /// A call of some built-in whose result has type `t` (table-driven, every built-in).
    fn builtin_call(&mut self, t: T, d: u32) -> Option<E> {
        let c: Vec<&(&str, &[A], T)> = SIGS.iter().filter(|s| s.2 == t).collect();
        if c.is_empty() {
            return None;
        }
        let (name, args, _) = **self.rng.pick(&c);
        let argv: Vec<E> = args.iter().map(|a| self.arg(*a, d)).collect();
        // sometimes through `into` / `via` / spread arguments, which reach the same code
        Some(match self.rng.below(8) {
            0 if argv.len() == 1 => bin("into", argv[0].clone(), id(name)),
            1 => call(id(name), vec![E::Spread(Box::new(E::List(argv)))]),
            _ => call(id(name), argv),
        })
    }

    fn pred(&mut self, d: u32) -> E {
        let op = *self.rng.pick(CMP);
        let rhs = self.expr(T::Num, d.saturating_sub(1));
        lam(&["x"], bin(op, id("x"), rhs))
    }

    fn with_local<R>(&mut self, name: &str, t: T, f: impl FnOnce(&mut Self) -> R) -> R {
        self.locals.push((name.to_string(), t));
        let r = f(self);
        self.locals.pop();
        r
    }

    pub fn any(&mut self, d: u32) -> E {
        let t = *self.rng.pick(&[T::Num, T::Str, T::Bool, T::LNum, T::LStr, T::Rec, T::Fun, T::LX]);
        self.expr(t, d)
    }

    pub fn expr(&mut self, t: T, d: u32) -> E {
        if d == 0 {
            return self.leaf(t);
        }
        // occasional deliberate type confusion (errors are part of the space)
        if self.rng.chance(1, 25) {
            let other = *self.rng.pick(&[T::Num, T::Str, T::Bool, T::LNum, T::Rec]);
            return self.leaf(other);
        }
        let d1 = d - 1;
        if self.rng.chance(1, 4) {
            if let Some(e) = self.builtin_call(t, d1) {
                return e;
            }
        }
        match t {
            T::LX => match self.rng.below(8) {
                7 => {
                    // many elements that are equal in content but live in different heap cells
                    // (all of them, or in three classes): records with function fields,
                    // functions, nested lists - the size axis for values without an order
                    let n = *self.rng.pick(&[9i64, 12, 17, 33, 70, 300]);
                    let classes = self.rng.chance(1, 3);
                    let tag = if classes { bin("%", id("i"), num(3)) } else { num(0) };
                    let elem = match self.rng.below(5) {
                        0 => E::Rec(vec![RK::Static("kind".into(), st("unit")), RK::Static("scale".into(), lam(&["x"], bin("*", id("x"), num(2)))), RK::Static("c".into(), tag)]),
                        1 if !classes => lam(&["x"], bin("+", id("x"), num(1))),
                        2 => E::List(vec![tag, E::Rec(vec![RK::Static("a".into(), num(2))])]),
                        3 => E::Rec(vec![RK::Static("f".into(), E::List(vec![lam(&["q"], id("q"))])), RK::Static("c".into(), tag)]),
                        _ => E::Rec(vec![RK::Static("n".into(), numf("0.5")), RK::Static("c".into(), tag)]),
                    };
                    let xs = call(id("map"), vec![call(id("range"), vec![num(n)]), lam(&["i"], elem)]);
                    if self.rng.chance(1, 2) { call(id("unique"), vec![xs]) } else { xs }
                }
                6 => {
                    // characters of one string looked up by index several times (in range, past
                    // the end, negative), the string written out each time
                    let sub = if self.rng.chance(1, 2) { self.expr(T::Str, d1) } else { st(*self.rng.pick(&["héllo wörld", "日本語のテキスト", "naïve café", "a😀b😀c", "ÅÅÅÅÅÅ", "plain ascii"])) };
                    let n = self.rng.range(2, 5);
                    E::List((0..n).map(|_| idx(sub.clone(), num(self.rng.range(-3, 14)))).collect())
                }
                0 => self.leaf(T::LX),
                1 => self.unordered_list(d1),
                2 => E::List(vec![E::Spread(Box::new(self.expr(T::LX, d1))), self.any(d1)]),
                3 => cond(self.expr(T::Bool, d1), self.expr(T::LX, d1), self.expr(T::LX, d1)),
                4 => bin("where", self.expr(T::LX, d1), lam(&["v"], bin(".!=", call(id("typeof"), vec![id("v")]), st("string")))),
                _ => self.unordered_list(d1),
            },
            T::LBool => match self.rng.below(3) {
                0 => self.leaf(T::LBool),
                1 => bin(*self.rng.pick(&["<", "<=", "==", "!=", ">"]), self.expr(T::LNum, d1), self.expr(T::Num, d1)),
                _ => E::List((0..self.rng.below(4)).map(|_| self.expr(T::Bool, d1)).collect()),
            },
            T::Num => match self.rng.below(25) {
                0 | 1 => self.leaf(T::Num),
                2 | 3 | 4 => {
                    let op = *self.rng.pick(ARITH);
                    bin(op, self.expr(T::Num, d1), self.expr(T::Num, d1))
                }
                5 => {
                    // powers: whole, larger, negative and fractional literal exponents
                    let ex = match self.rng.below(6) {
                        0 => numf("0.5"),
                        1 => num(-(self.rng.range(1, 3))),
                        2 => num(self.rng.range(4, 12)),
                        _ => num(self.rng.range(0, 3)),
                    };
                    bin("^", self.expr(T::Num, d1), ex)
                }
                6 => E::Neg(Box::new(self.expr(T::Num, d1))),
                7 => cond(self.expr(T::Bool, d1), self.expr(T::Num, d1), self.expr(T::Num, d1)),
                8 if self.rng.chance(1, 6) => {
                    // an aggregate over a list of tens or hundreds of thousands of non-integral
                    // numbers, built and consumed in place (far end of the size axis)
                    let n = *self.rng.pick(&[33_000i64, 50_000, 70_000, 130_000, 400_000]);
                    let xs = match self.rng.below(3) {
                        0 => bin("/", call(id("range"), vec![num(n)]), num(7)),
                        1 => bin("*", call(id("range"), vec![num(n)]), numf("0.1")),
                        _ => bin("+", bin("/", call(id("range"), vec![num(n)]), num(3)), numf("0.3")),
                    };
                    let f = *self.rng.pick(&["sum", "avg", "sum", "avg", "max", "min", "median", "len"]);
                    call(id(f), vec![xs])
                }
                8 => {
                    let f = *self.rng.pick(&["len", "sum", "max", "min", "avg", "prod"]);
                    call(id(f), vec![self.expr(T::LNum, d1)])
                }
                9 => {
                    let f = *self.rng.pick(&["abs", "floor", "ceil", "round", "sqrt", "trunc", "exp", "sin"]);
                    call(id(f), vec![self.expr(T::Num, d1)])
                }
                10 => call(id("random"), vec![num(self.rng.range(0, 50))]),
                11 => call(self.expr(T::Fun, d1), vec![self.expr(T::Num, d1)]),
                12 => idx(self.expr(T::LNum, d1), num(self.rng.range(-2, 3))),
                13 => bin("??", dot(self.expr(T::Rec, d1), *self.rng.pick(&["k", "m", "zz"])), self.num_lit()),
                14 => {
                    let v = self.expr(T::Num, d1);
                    let body = self.with_local("t", T::Num, |g| g.expr(T::Num, d1));
                    doblk(vec![assign("t", v)], body)
                }
                15 => bin("into", self.expr(T::Num, d1), self.expr(T::Fun, d1)),
                16 => call(
                    id("reduce"),
                    vec![self.expr(T::LNum, d1), E::Lam(vec![Arg::Req("acc".into()), Arg::Req("x".into())], Box::new(bin("+", id("acc"), id("x")))), self.num_lit()],
                ),
                17 => call(id("dot"), vec![self.expr(T::LNum, d1), self.expr(T::LNum, d1)]),
                18 => bin("??", E::InRef((*self.rng.pick(&["k", "nope", "xs"])).to_string()), self.num_lit()),
                19 => call(id("arity"), vec![self.expr(T::Fun, d1)]),
                20 => E::Fact(Box::new(num(self.rng.range(0, 8)))),
                23 => {
                    // wrong argument count (an error raised by the arity check)
                    let f = self.expr(T::Fun, d1);
                    if self.rng.chance(1, 2) { call(f, vec![]) } else { call(f, vec![num(1), num(2), num(3), num(4)]) }
                }
                21 | 22 => {
                    // unit conversion; spellings that differ only by case are distinct units
                    // (mm / Mm, kb / kB / KB, mA / MA ...) or ambiguous
                    let pairs: &[(&str, &str)] = &[
                        ("mm", "m"), ("Mm", "m"), ("km", "mm"), ("kb", "b"), ("kB", "b"), ("KB", "b"), ("MB", "kB"), ("mb", "b"),
                        ("mA", "A"), ("MA", "A"), ("mV", "V"), ("MV", "V"), ("ms", "s"), ("Ms", "s"), ("mW", "W"), ("MW", "W"),
                        ("ft", "m"), ("celsius", "fahrenheit"), ("kg", "lb"), ("MM", "m"), ("ma", "A"),
                    ];
                    let (a, b) = *self.rng.pick(pairs);
                    let (a, b) = if self.rng.chance(1, 3) { (b, a) } else { (a, b) };
                    call(id("convert"), vec![self.expr(T::Num, d1), st(a), st(b)])
                }
                _ => call(id("to_number"), vec![call(id("to_string"), vec![self.expr(T::Num, d1)])]),
            },
            T::Str => match self.rng.below(11) {
                0 | 1 => self.leaf(T::Str),
                2 => bin("+", self.expr(T::Str, d1), self.expr(T::Str, d1)),
                3 => call(id("to_string"), vec![self.any(d1)]),
                4 => call(id("join"), vec![self.expr(T::LStr, d1), st(*self.rng.pick(&[",", " ", ""]))]),
                5 => call(id(*self.rng.pick(&["uppercase", "lowercase", "trim"])), vec![self.expr(T::Str, d1)]),
                6 => call(id("typeof"), vec![self.any(d1)]),
                7 => call(id("format"), vec![st("{}-{}"), self.any(d1), self.expr(T::Num, d1)]),
                8 => idx(self.expr(T::LStr, d1), num(self.rng.range(-1, 2))),
                9 if self.rng.chance(1, 2) => bin("??", idx(self.expr(T::Str, d1), num(self.rng.range(-3, 14))), st("none")),
                9 => call(id("replace"), vec![self.expr(T::Str, d1), st("a"), st("bb")]),
                _ => cond(self.expr(T::Bool, d1), self.expr(T::Str, d1), self.expr(T::Str, d1)),
            },
            T::Bool => match self.rng.below(14) {
                0 => self.leaf(T::Bool),
                1 | 2 | 3 => bin(*self.rng.pick(CMP), self.expr(T::Num, d1), self.expr(T::Num, d1)),
                4 => bin(*self.rng.pick(&["and", "or", "&&", "||"]), self.expr(T::Bool, d1), self.expr(T::Bool, d1)),
                5 => E::Not(Box::new(self.expr(T::Bool, d1))),
                6 => call(id("includes"), vec![self.expr(T::LNum, d1), self.expr(T::Num, d1)]),
                7 => {
                    let p = self.pred(d1);
                    call(id(*self.rng.pick(&["every", "some"])), vec![self.expr(T::LNum, d1), p])
                }
                8 | 12 | 13 if self.rng.chance(2, 3) => {
                    // one sub-expression written twice (equality with itself, membership of
                    // itself, uniqueness of two copies)
                    let t = *self.rng.pick(&[T::LNum, T::Rec, T::LX, T::Num, T::Str]);
                    let sub = self.expr(t, d1);
                    match self.rng.below(4) {
                        0 => bin(".==", sub.clone(), sub),
                        1 => call(id("includes"), vec![E::List(vec![sub.clone()]), sub]),
                        2 => bin(".==", call(id("len"), vec![call(id("unique"), vec![E::List(vec![sub.clone(), sub])])]), num(1)),
                        _ => bin(".==", E::Rec(vec![RK::Static("k".into(), sub.clone())]), E::Rec(vec![RK::Static("k".into(), sub)])),
                    }
                }
                8 => bin(".==", self.any(d1), self.any(d1)),
                10 | 11 => {
                    // two distinct closure values with the same text and the same captures,
                    // compared through language equality (directly, or via unique / includes)
                    let ncap = self.rng.range(2, 4) as usize;
                    let names = ["ca", "cb", "cc", "cd"];
                    let params: Vec<&str> = names[..ncap].to_vec();
                    let mut body = id("x");
                    for n in &params {
                        body = bin("+", body, id(n));
                    }
                    let factory = E::Lam(params.iter().map(|n| Arg::Req(n.to_string())).collect(), Box::new(lam(&["x"], body)));
                    let args: Vec<E> = (0..ncap).map(|_| self.num_lit()).collect();
                    let mk = || call(factory.clone(), args.clone());
                    match self.rng.below(5) {
                        0 => bin("==", mk(), mk()),
                        1 => bin(".==", mk(), mk()),
                        2 => call(id("includes"), vec![E::List(vec![mk()]), mk()]),
                        3 => bin(".==", call(id("len"), vec![call(id("unique"), vec![E::List(vec![mk(), mk(), mk()])])]), num(1)),
                        _ => bin(".==", E::Rec(vec![RK::Static("f".into(), mk())]), E::Rec(vec![RK::Static("f".into(), mk())])),
                    }
                }
                _ => bin(*self.rng.pick(&[".==", ".!="]), self.expr(T::Str, d1), self.expr(T::Str, d1)),
            },
            T::LNum => match self.rng.below(27) {
                25 | 26 => {
                    // one operator applied several times in a row with the same (fractional)
                    // right operand, element by element or by broadcasting: each result is a
                    // function of its two operands alone, whatever was computed just before
                    let op = *self.rng.pick(&["%", "%", "/", "^", "*", "-"]);
                    let d = numf(*self.rng.pick(&["0.1", "0.3", "0.7", "1.3", "2.675", "0.5", "3"]));
                    let n = self.rng.range(2, 5);
                    let lefts: Vec<E> = (0..n).map(|_| if self.rng.chance(1, 2) { self.num_lit() } else { num(self.rng.range(1, 9)) }).collect();
                    if self.rng.chance(1, 2) {
                        bin(op, E::List(lefts), d)
                    } else {
                        E::List(lefts.into_iter().map(|l| bin(op, l, d.clone())).collect())
                    }
                }
                0 | 1 => self.leaf(T::LNum),
                2 => {
                    let mut xs: Vec<E> = (0..self.rng.below(5)).map(|_| self.expr(T::Num, d1)).collect();
                    // sometimes one element of the wrong kind at a random position: whatever
                    // consumes the list fails part-way through it
                    if !xs.is_empty() && self.rng.chance(1, 12) {
                        let at = self.rng.usize_below(xs.len() + 1);
                        let bad = match self.rng.below(4) {
                            0 => st("x"),
                            1 => E::Bool(true),
                            2 => E::Null,
                            _ => E::List(vec![]),
                        };
                        xs.insert(at, bad);
                    }
                    E::List(xs)
                }
                3 => call(id("range"), vec![num(self.rng.range(0, 7))]),
                4 => call(id("map"), vec![self.expr(T::LNum, d1), self.expr(T::Fun, d1)]),
                5 => bin("via", self.expr(T::LNum, d1), self.expr(T::Fun, d1)),
                6 => {
                    let p = self.pred(d1);
                    bin("where", self.expr(T::LNum, d1), p)
                }
                7 => bin(*self.rng.pick(ARITH), self.expr(T::LNum, d1), self.expr(T::Num, d1)),
                8 => bin(*self.rng.pick(&["+", "*", "-"]), self.expr(T::LNum, d1), self.expr(T::LNum, d1)),
                9 => call(id(*self.rng.pick(&["sort", "reverse", "unique", "flatten", "tail"])), vec![self.expr(T::LNum, d1)]),
                10 => call(id("concat"), vec![self.expr(T::LNum, d1), self.expr(T::LNum, d1)]),
                11 => call(id("slice"), vec![self.expr(T::LNum, d1), num(0), num(self.rng.range(0, 3))]),
                12 => E::List(vec![E::Spread(Box::new(self.expr(T::LNum, d1))), self.expr(T::Num, d1)]),
                13 => call(id("sort_by"), vec![self.expr(T::LNum, d1), lam(&["x"], E::Neg(Box::new(id("x"))))]),
                14 => call(id("values"), vec![self.expr(T::Rec, d1)]),
                15 => {
                    let p = self.pred(d1);
                    call(id("filter"), vec![self.expr(T::LNum, d1), p])
                }
                16 => cond(self.expr(T::Bool, d1), self.expr(T::LNum, d1), self.expr(T::LNum, d1)),
                17 => call(id("flatten"), vec![call(id("chunk"), vec![self.expr(T::LNum, d1), num(2)])]),
                18 => {
                    // callback with index parameter
                    bin("via", self.expr(T::LNum, d1), E::Lam(vec![Arg::Req("x".into()), Arg::Req("i".into())], Box::new(bin("+", id("x"), id("i")))))
                }
                19 => call(id("map"), vec![call(id("zip"), vec![self.expr(T::LNum, d1), self.expr(T::LNum, d1)]), lam(&["pr"], idx(id("pr"), num(0)))]),
                22 => {
                    // a long list of non-integral numbers (order of floating-point additions,
                    // size thresholds of fast paths)
                    let n = *self.rng.pick(&[64i64, 65, 100, 129, 200, 257, 300]);
                    let f = match self.rng.below(3) {
                        0 => lam(&["x"], bin("+", bin("*", id("x"), numf("0.1")), numf("0.3"))),
                        1 => lam(&["x"], bin("/", id("x"), num(7))),
                        _ => lam(&["x"], call(id("sin"), vec![id("x")])),
                    };
                    bin("via", call(id("range"), vec![num(n)]), f)
                }
                20 | 21 => {
                    // the same list value reached through a route that allocates nothing new
                    let inner = self.expr(T::LNum, d1);
                    match self.rng.below(8) {
                        0 => call(lam(&["x"], id("x")), vec![inner]),
                        1 => bin("into", inner, lam(&["x"], id("x"))),
                        2 => idx(E::List(vec![inner]), num(0)),
                        3 => doblk(vec![], inner),
                        4 => dot(E::Rec(vec![RK::Static("k".into(), inner)]), "k"),
                        5 => call(id("reduce"), vec![E::List(vec![]), E::Lam(vec![Arg::Req("acc".into()), Arg::Req("x".into())], Box::new(id("acc"))), inner]),
                        6 => bin("via", E::Rec(vec![RK::Static("items".into(), inner)]), lam(&["d"], dot(id("d"), "items"))),
                        _ => call(E::Lam(vec![], Box::new(inner)), vec![]),
                    }
                }
                _ => {
                    // broadcasting with the scalar on the left, and the remaining operators
                    let op = *self.rng.pick(&["-", "*", "/", "%", "^", "+"]);
                    if self.rng.chance(1, 2) { bin(op, self.expr(T::Num, d1), self.expr(T::LNum, d1)) } else { bin(op, self.expr(T::LNum, d1), self.expr(T::Num, d1)) }
                }
            },
            T::LStr => match self.rng.below(8) {
                0 | 1 => self.leaf(T::LStr),
                2 => call(id("keys"), vec![self.expr(T::Rec, d1)]),
                3 => call(id("split"), vec![self.expr(T::Str, d1), st(*self.rng.pick(&[" ", "", "a"]))]),
                4 => call(id("map"), vec![self.expr(T::LNum, d1), id("to_string")]),
                5 => E::List(vec![E::Spread(Box::new(self.expr(T::Str, d1)))]),
                6 => call(id(*self.rng.pick(&["sort", "unique", "reverse"])), vec![self.expr(T::LStr, d1)]),
                _ => E::List((0..self.rng.below(4)).map(|_| self.expr(T::Str, d1)).collect()),
            },
            T::Rec => match self.rng.below(10) {
                0 | 1 => self.leaf(T::Rec),
                2 => {
                    let keys = ["k", "m", "x", "y", "two words", "Zq"];
                    let n = self.rng.range(1, 5) as usize;
                    let mut ks: Vec<&str> = keys.to_vec();
                    self.rng.shuffle(&mut ks);
                    E::Rec(ks.into_iter().take(n).map(|k| RK::Static(k.to_string(), self.any(d1))).collect())
                }
                3 => E::Rec(vec![RK::Spread(self.expr(T::Rec, d1)), RK::Static("k".into(), self.any(d1))]),
                4 => call(id("group_by"), vec![self.expr(T::LStr, d1), lam(&["s"], id("s"))]),
                5 => call(id("count_by"), vec![self.expr(T::LStr, d1), lam(&["s"], call(id("uppercase"), vec![id("s")]))]),
                6 => E::Rec(vec![RK::Dyn(self.expr(T::Str, d1), self.any(d1)), RK::Static("m".into(), self.num_lit())]),
                7 => {
                    let c: Vec<String> = self.vars.iter().chain(self.locals.iter()).map(|v| v.0.clone()).collect();
                    if c.is_empty() {
                        self.leaf(T::Rec)
                    } else {
                        let n = self.rng.range(1, 3) as usize;
                        E::Rec((0..n).map(|_| RK::Short(self.rng.pick(&c).clone())).collect())
                    }
                }
                8 => E::Rec(vec![RK::Spread(self.expr(T::LNum, d1))]),
                _ => call(
                    id("group_by"),
                    vec![self.expr(T::LNum, d1), lam(&["x"], cond(bin(".>", id("x"), num(2)), st("big"), st("small")))],
                ),
            },
            T::Fun => match self.rng.below(10) {
                0 => self.leaf(T::Fun),
                1 | 2 | 3 => {
                    let body = self.with_local("x", T::Num, |g| g.expr(T::Num, d1));
                    if self.locals.is_empty() && self.rng.chance(1, 6) {
                        // late binding: the body refers to a name that a later statement binds
                        let name = if !self.promised.is_empty() && self.rng.chance(1, 2) { self.rng.pick(&self.promised).clone() } else { self.fresh() };
                        if !self.promised.contains(&name) {
                            self.promised.push(name.clone());
                        }
                        return lam(&["x"], bin("+", body, id(&name)));
                    }
                    lam(&["x"], body)
                }
                4 => {
                    // curried: ((a) => (x) => body)(v)
                    let v = self.expr(T::Num, d1);
                    let body = self.with_local("a", T::Num, |g| g.with_local("x", T::Num, |g| g.expr(T::Num, d1)));
                    call(lam(&["a"], lam(&["x"], body)), vec![v])
                }
                5 => {
                    let v = self.expr(T::Num, d1);
                    let body = self.with_local("h", T::Num, |g| g.with_local("x", T::Num, |g| g.expr(T::Num, d1)));
                    doblk(vec![assign("h", v)], lam(&["x"], body))
                }
                6 => {
                    let body = self.with_local("x", T::Num, |g| g.expr(T::Num, d1));
                    E::Lam(vec![Arg::Req("x".into()), Arg::Opt("o".into())], Box::new(bin("+", body, bin("??", id("o"), num(0)))))
                }
                7 => {
                    let body = self.with_local("x", T::Num, |g| g.expr(T::Num, d1));
                    E::Lam(vec![Arg::Req("x".into()), Arg::Rest("more".into())], Box::new(bin("+", body, call(id("len"), vec![id("more")]))))
                }
                8 => {
                    // functions in a do-block that refer to one another before they are bound
                    // (a chain of forward references); the first one leaves the block
                    let n = self.rng.range(2, 4) as usize;
                    let names = ["fa", "fb", "fc", "fd"];
                    let mut stmts = vec![];
                    for i in 0..n {
                        let body = if i + 1 < n { bin("+", call(id(names[i + 1]), vec![id("x")]), num(i as i64 + 1)) } else { bin("*", id("x"), num(3)) };
                        stmts.push(assign(names[i], lam(&["x"], body)));
                    }
                    if self.rng.chance(1, 2) {
                        stmts.reverse(); // bound before use: no forward reference at all
                    }
                    doblk(stmts, id(names[0]))
                }
                _ => cond(self.expr(T::Bool, d1), self.expr(T::Fun, d1), self.expr(T::Fun, d1)),
            },
        }
    }

    /// One more statement of the program; binds a fresh name unless it is a bare expression.
    pub fn stmt(&mut self, allow_output: bool) -> Vec<(Stmt, &'static str)> {
        let d = self.rng.range(1, 4) as u32;
        if !self.promised.is_empty() && self.rng.chance(1, 2) {
            // keep a promise: bind a name that earlier function bodies already refer to
            let name = self.promised.remove(0);
            let e = self.expr(T::Num, 1);
            self.vars.push((name.clone(), T::Num));
            return vec![(Stmt::Expr(assign(&name, e)), "bind-late")];
        }
        match self.rng.below(24) {
            0 if self.allow_depth_probe => {
                // depth probe: recursion to within a few calls of the limit
                let r = self.fresh();
                let p = self.fresh();
                let k = if self.rng.chance(1, 2) { self.rng.range(992, 1003) } else { self.rng.range(880, 1003) };
                // plain self-recursion, or recursion that passes through a callback of `via`
                // (each level then costs more than one call)
                let via_cb = self.rng.chance(1, 4);
                let k = if via_cb { k / 3 + self.rng.range(0, 6) } else { k };
                let rec = if via_cb {
                    idx(bin("via", E::List(vec![bin("-", id("n"), num(1))]), id(&r)), num(0))
                } else {
                    call(id(&r), vec![bin("-", id("n"), num(1))])
                };
                let body = cond(bin(".==", id("n"), num(0)), num(0), bin("+", num(1), rec));
                self.vars.push((r.clone(), T::Fun));
                self.vars.push((p.clone(), T::Num));
                vec![(Stmt::Expr(assign(&r, lam(&["n"], body))), "depth-probe-def"), (Stmt::Expr(assign(&p, call(id(&r), vec![num(k)]))), "depth-probe-call")]
            }
            1 => {
                // alias probe: named self-referential function stored in a handle and evaluated
                // through it under a shadow of its own name
                let f = self.fresh();
                let h = self.fresh();
                let p = self.fresh();
                let body = cond(bin(".<=", id("n"), num(0)), st("done"), call(id(&f), vec![bin("-", id("n"), num(1))]));
                self.vars.push((f.clone(), T::Fun));
                self.vars.push((p.clone(), T::Str));
                let through = idx(id(&h), num(0));
                let shadowed = if self.rng.chance(1, 2) {
                    doblk(vec![assign(&f, num(5))], call(through, vec![num(2)]))
                } else {
                    call(lam(&[&f], call(through, vec![num(2)])), vec![num(0)])
                };
                vec![
                    (Stmt::Expr(assign(&f, lam(&["n"], body))), "alias-probe-def"),
                    (Stmt::Expr(assign(&h, E::List(vec![id(&f)]))), "alias-probe-handle"),
                    (Stmt::Expr(assign(&p, shadowed)), "alias-probe-call"),
                ]
            }
            2 if self.rng.chance(1, 2) => {
                // late-capture probe: g refers to names bound only later; h then captures both g
                // and those names; h is turned into a value (canonical form / emitted source)
                let g = self.fresh();
                let h = self.fresh();
                let nlate = self.rng.range(1, 3) as usize;
                let lates: Vec<String> = (0..nlate).map(|_| self.fresh()).collect();
                let mut gbody = id("y");
                for (i, n) in lates.iter().enumerate() {
                    gbody = if i == 0 && self.rng.chance(1, 4) {
                        bin("+", gbody, dot(E::Rec(vec![RK::Short(n.clone())]), n))
                    } else {
                        bin("+", gbody, id(n))
                    };
                }
                let mut out = vec![(Stmt::Expr(assign(&g, lam(&["y"], gbody))), "late-capture-g")];
                for n in &lates {
                    let v = self.num_lit();
                    out.push((Stmt::Expr(assign(n, v)), "bind-late"));
                    self.vars.push((n.clone(), T::Num));
                }
                let mut hbody = call(id(&g), vec![id("x")]);
                for n in &lates {
                    hbody = bin("+", hbody, id(n));
                }
                self.vars.push((g.clone(), T::Fun));
                out.push((Stmt::Expr(assign(&h, lam(&["x"], hbody))), "late-capture-h"));
                self.vars.push((h.clone(), T::Fun));
                out.push(match self.rng.below(3) {
                    0 => (Stmt::Expr(call(id("to_string"), vec![E::Lam(vec![], Box::new(id(&h)))])), "late-capture-observe"),
                    1 => (Stmt::Expr(E::List(vec![id(&h), call(id(&h), vec![num(1)])])), "late-capture-observe"),
                    _ if allow_output => (Stmt::Output(h.clone(), None), "late-capture-observe"),
                    _ => (Stmt::Expr(id(&h)), "late-capture-observe"),
                });
                out
            }
            2 | 3 | 4 | 5 => {
                // bare expression (assignment-free): the subject of EvalTwice
                let t = *self.rng.pick(&[T::Num, T::Str, T::Bool, T::LNum, T::LStr, T::Rec, T::LX, T::LBool]);
                vec![(Stmt::Expr(self.expr(t, d)), "bare-expr")]
            }
            6 | 7 if allow_output => {
                let n = self.fresh();
                let t = *self.rng.pick(&[T::Num, T::Str, T::LNum, T::Rec, T::Fun, T::LStr, T::LX]);
                let e = self.expr(t, d);
                self.vars.push((n.clone(), t));
                vec![(Stmt::Output(n, Some(e)), "output-assign")]
            }
            8 if allow_output && !self.vars.is_empty() => {
                let n = self.rng.pick(&self.vars).0.clone();
                vec![(Stmt::Output(n, None), "output-name")]
            }
            11 => {
                // a non-ASCII string bound to a name and then indexed several times in one
                // expression: past the end first, then back inside (any lookup is a pure
                // function of the string and the index, whatever was looked up before)
                let n = self.fresh();
                let text = *self.rng.pick(&["héllo", "日本語のテキスト", "naïve café", "a😀b😀c", "ÅÅÅÅÅÅ", "żółć gęślą jaźń"]);
                let chars = text.chars().count() as i64;
                self.vars.push((n.clone(), T::Str));
                let mut lookups = vec![];
                let t = chars + self.rng.range(0, 5);
                lookups.push(idx(id(&n), num(t)));
                let lo = (t + 1) / 2;
                if lo < chars {
                    lookups.push(idx(id(&n), num(self.rng.range(lo, chars))));
                }
                for _ in 0..self.rng.range(0, 3) {
                    lookups.push(idx(id(&n), num(self.rng.range(-2, chars + 3))));
                }
                vec![(Stmt::Expr(assign(&n, st(text))), "bind"), (Stmt::Expr(E::List(lookups)), "bare-expr")]
            }
            9 | 10 => {
                // a name bound by an assignment nested inside a statement that is not itself an
                // assignment (an element, an argument, a branch, a field, an operand)
                let n = self.fresh();
                let t = *self.rng.pick(&[T::Num, T::Str, T::LNum, T::LNum, T::LStr, T::Rec, T::Rec, T::Fun, T::LX]);
                let e = self.expr(t, d);
                self.vars.push((n.clone(), t));
                let a = assign(&n, e);
                let st = match self.rng.below(7) {
                    0 => E::List(vec![a, num(0)]),
                    1 => call(id("typeof"), vec![a]),
                    2 => cond(E::Bool(true), a, num(0)),
                    3 => E::Rec(vec![RK::Static("k".into(), a)]),
                    4 => bin("==", a, num(0)),
                    5 => E::List(vec![E::List(vec![num(1), a])]),
                    _ => call(lam(&["x"], num(1)), vec![a]),
                };
                vec![(Stmt::Expr(st), "bind-nested")]
            }
            _ => {
                let n = self.fresh();
                let t = *self.rng.pick(&[T::Num, T::Num, T::Str, T::Bool, T::LNum, T::LNum, T::LStr, T::Rec, T::Rec, T::Fun, T::Fun, T::LX, T::LX]);
                let e = self.expr(t, d);
                self.vars.push((n.clone(), t));
                vec![(Stmt::Expr(assign(&n, e)), "bind")]
            }
        }
    }

    pub fn program(&mut self, n: usize, allow_output: bool) -> Vec<(Stmt, String)> {
        let mut out = vec![];
        while out.len() < n {
            for (s, k) in self.stmt(allow_output) {
                out.push((s, k.to_string()));
            }
        }
        out
    }
}

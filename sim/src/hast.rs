//! Harness AST: what generators produce, what replay files store, what the oracles analyse.
//! It is independent of blots-core's AST on purpose: frame / closedness analyses used by the
//! oracles must not depend on the parser under test.

use serde::{Deserialize, Serialize};
use std::collections::BTreeSet;

#[derive(Clone, Debug, PartialEq, Serialize, Deserialize)]
pub enum Arg {
    Req(String),
    Opt(String),
    Rest(String),
}
impl Arg {
    pub fn name(&self) -> &str {
        match self {
            Arg::Req(n) | Arg::Opt(n) | Arg::Rest(n) => n,
        }
    }
}

#[derive(Clone, Debug, PartialEq, Serialize, Deserialize)]
pub enum RK {
    Static(String, E),
    Dyn(E, E),
    Short(String),
    Spread(E),
}

#[derive(Clone, Debug, PartialEq, Serialize, Deserialize)]
pub enum E {
    /// Numeric literal, stored as its source text (non-negative; negatives use Neg).
    Num(String),
    Str(String),
    Bool(bool),
    Null,
    Id(String),
    InRef(String),
    List(Vec<E>),
    Rec(Vec<RK>),
    Lam(Vec<Arg>, Box<E>),
    Assign(String, Box<E>),
    Cond(Box<E>, Box<E>, Box<E>),
    Do(Vec<E>, Box<E>),
    Call(Box<E>, Vec<E>),
    Idx(Box<E>, Box<E>),
    Dot(Box<E>, String),
    Bin(String, Box<E>, Box<E>),
    Neg(Box<E>),
    Not(Box<E>),
    Fact(Box<E>),
    Spread(Box<E>),
    /// Verbatim source fragment (used for hand-written statements and syntax errors).
    Raw(String),
}

#[derive(Clone, Debug, PartialEq, Serialize, Deserialize)]
pub enum Stmt {
    Expr(E),
    /// `output n` / `output n = e`
    Output(String, Option<E>),
}

pub fn num(n: i64) -> E {
    if n < 0 {
        E::Neg(Box::new(E::Num((-n).to_string())))
    } else {
        E::Num(n.to_string())
    }
}
pub fn numf(text: &str) -> E {
    E::Num(text.to_string())
}
pub fn id(s: &str) -> E {
    E::Id(s.to_string())
}
pub fn st(s: &str) -> E {
    E::Str(s.to_string())
}
pub fn assign(n: &str, e: E) -> E {
    E::Assign(n.to_string(), Box::new(e))
}
pub fn call(f: E, args: Vec<E>) -> E {
    E::Call(Box::new(f), args)
}
pub fn bin(op: &str, a: E, b: E) -> E {
    E::Bin(op.to_string(), Box::new(a), Box::new(b))
}
pub fn lam(args: &[&str], body: E) -> E {
    E::Lam(args.iter().map(|a| Arg::Req(a.to_string())).collect(), Box::new(body))
}
pub fn cond(c: E, t: E, e: E) -> E {
    E::Cond(Box::new(c), Box::new(t), Box::new(e))
}
pub fn idx(a: E, i: E) -> E {
    E::Idx(Box::new(a), Box::new(i))
}
pub fn dot(a: E, f: &str) -> E {
    E::Dot(Box::new(a), f.to_string())
}
pub fn doblk(stmts: Vec<E>, ret: E) -> E {
    E::Do(stmts, Box::new(ret))
}

fn quote(s: &str) -> String {
    // Blots strings have no escapes: pick the delimiter that does not occur.
    if !s.contains('"') {
        format!("\"{}\"", s)
    } else {
        format!("'{}'", s)
    }
}

fn is_atom(e: &E) -> bool {
    matches!(
        e,
        E::Num(_) | E::Str(_) | E::Bool(_) | E::Null | E::Id(_) | E::InRef(_) | E::List(_) | E::Rec(_)
    )
}

/// Print with parentheses around every compound operand, so the printed text denotes this
/// tree whatever the precedence table says (precedence is C10's subject, not ours).
pub fn show(e: &E) -> String {
    match e {
        E::Num(t) => t.clone(),
        E::Str(s) => quote(s),
        E::Bool(b) => b.to_string(),
        E::Null => "null".into(),
        E::Id(n) => n.clone(),
        E::InRef(n) => format!("#{}", n),
        E::List(xs) => format!("[{}]", xs.iter().map(show).collect::<Vec<_>>().join(", ")),
        E::Rec(ks) => {
            let items: Vec<String> = ks
                .iter()
                .map(|k| match k {
                    RK::Static(n, v) => {
                        let key = if is_ident(n) { n.clone() } else { quote(n) };
                        format!("{}: {}", key, show(v))
                    }
                    RK::Dyn(k, v) => format!("[{}]: {}", show(k), show(v)),
                    RK::Short(n) => n.clone(),
                    RK::Spread(v) => format!("...{}", wrap(v)),
                })
                .collect();
            format!("{{{}}}", items.join(", "))
        }
        E::Lam(args, body) => {
            let a: Vec<String> = args
                .iter()
                .map(|a| match a {
                    Arg::Req(n) => n.clone(),
                    Arg::Opt(n) => format!("{}?", n),
                    Arg::Rest(n) => format!("...{}", n),
                })
                .collect();
            format!("({}) => {}", a.join(", "), wrap(body))
        }
        E::Assign(n, v) => format!("{} = {}", n, show(v)),
        E::Cond(c, t, f) => format!("if {} then {} else {}", wrap(c), wrap(t), wrap(f)),
        E::Do(stmts, ret) => {
            let mut s = String::from("do { ");
            for st in stmts {
                s.push_str(&show(st));
                s.push_str("; ");
            }
            s.push_str("return ");
            s.push_str(&show(ret));
            s.push_str(" }");
            s
        }
        E::Call(f, args) => {
            let fs = if matches!(**f, E::Id(_)) { show(f) } else { format!("({})", show(f)) };
            format!("{}({})", fs, args.iter().map(show).collect::<Vec<_>>().join(", "))
        }
        E::Idx(a, i) => format!("{}[{}]", wrap(a), show(i)),
        E::Dot(a, f) => format!("{}.{}", wrap(a), f),
        E::Bin(op, a, b) => format!("{} {} {}", wrap(a), op, wrap(b)),
        E::Neg(a) => format!("-{}", wrap(a)),
        E::Not(a) => format!("!{}", wrap(a)),
        E::Fact(a) => format!("{}!", wrap(a)),
        E::Spread(a) => format!("...{}", wrap(a)),
        E::Raw(s) => s.clone(),
    }
}

fn wrap(e: &E) -> String {
    if is_atom(e) { show(e) } else { format!("({})", show(e)) }
}

pub fn show_stmt(s: &Stmt) -> String {
    match s {
        // An infix operator continues the previous line, so a statement must not begin with
        // a sign: `floor` / `-[]` on two lines is the single statement `floor - []`.
        Stmt::Expr(e) => {
            let t = show(e);
            if t.starts_with('-') || t.starts_with('+') { format!("({})", t) } else { t }
        }
        Stmt::Output(n, None) => format!("output {}", n),
        Stmt::Output(n, Some(e)) => format!("output {} = {}", n, show(e)),
    }
}

pub fn is_ident(s: &str) -> bool {
    let mut cs = s.chars();
    match cs.next() {
        Some(c) if c.is_ascii_alphabetic() || c == '_' => {}
        _ => return false,
    }
    cs.all(|c| c.is_ascii_alphanumeric() || c == '_') && !KEYWORDS.contains(&s)
}

pub const KEYWORDS: &[&str] = &[
    "if", "then", "else", "true", "false", "null", "and", "or", "not", "do", "return", "output",
];

// ---------------------------------------------------------------------------------------
// Analyses
// ---------------------------------------------------------------------------------------

/// Children of an expression, in evaluation order, with a flag: does the child execute in the
/// *same* binding frame as the parent, unconditionally?
///   Frame::Same   – same environment, always evaluated (strict position)
///   Frame::Branch – same environment, evaluated conditionally (then / else)
///   Frame::Inner  – a different environment (lambda body, do-block contents)
#[derive(Clone, Copy, PartialEq, Eq, Debug)]
pub enum Frame {
    Same,
    Branch,
    Inner,
}

pub fn children(e: &E) -> Vec<(Frame, &E)> {
    use Frame::*;
    match e {
        E::Num(_) | E::Str(_) | E::Bool(_) | E::Null | E::Id(_) | E::InRef(_) | E::Raw(_) => vec![],
        E::List(xs) => xs.iter().map(|x| (Same, x)).collect(),
        E::Rec(ks) => {
            let mut v = vec![];
            for k in ks {
                match k {
                    RK::Static(_, x) => v.push((Same, x)),
                    RK::Dyn(a, b) => {
                        v.push((Same, a));
                        v.push((Same, b));
                    }
                    RK::Short(_) => {}
                    RK::Spread(x) => v.push((Same, x)),
                }
            }
            v
        }
        E::Lam(_, b) => vec![(Inner, &**b)],
        E::Assign(_, v) => vec![(Same, &**v)],
        E::Cond(c, t, f) => vec![(Same, &**c), (Branch, &**t), (Branch, &**f)],
        E::Do(ss, r) => {
            let mut v: Vec<(Frame, &E)> = ss.iter().map(|s| (Inner, s)).collect();
            v.push((Inner, &**r));
            v
        }
        E::Call(f, args) => {
            let mut v = vec![(Same, &**f)];
            v.extend(args.iter().map(|a| (Same, a)));
            v
        }
        E::Idx(a, b) | E::Bin(_, a, b) => vec![(Same, &**a), (Same, &**b)],
        E::Dot(a, _) | E::Neg(a) | E::Not(a) | E::Fact(a) | E::Spread(a) => vec![(Same, &**a)],
    }
}

/// Names assigned by `e` in the frame `e` itself is evaluated in (i.e. outside any lambda
/// body and do-block). `definite` = assigned on every successful evaluation of `e`
/// (not under a conditional branch); `possible` ⊇ definite. Multiplicity is kept for
/// `definite` so that a double assignment in one statement can be recognised.
/// The value of a condition that is a constant: a boolean literal, or a comparison of two
/// integer literals.
pub fn const_bool(e: &E) -> Option<bool> {
    match e {
        E::Bool(b) => Some(*b),
        E::Bin(op, a, b) => {
            let (E::Num(x), E::Num(y)) = (&**a, &**b) else { return None };
            let (x, y) = (x.parse::<i64>().ok()?, y.parse::<i64>().ok()?);
            match op.as_str() {
                ".<" | "<" => Some(x < y),
                ".<=" | "<=" => Some(x <= y),
                ".>" | ">" => Some(x > y),
                ".>=" | ">=" => Some(x >= y),
                ".==" | "==" => Some(x == y),
                ".!=" | "!=" => Some(x != y),
                _ => None,
            }
        }
        _ => None,
    }
}

pub fn frame_assigned(e: &E, under_branch: bool, definite: &mut Vec<String>, possible: &mut BTreeSet<String>) {
    // a conditional whose condition is a constant evaluates exactly one branch
    if let E::Cond(c, t, f) = e {
        if let Some(b) = const_bool(c) {
            frame_assigned(c, under_branch, definite, possible);
            frame_assigned(if b { t } else { f }, under_branch, definite, possible);
            return;
        }
    }
    if let E::Assign(n, _) = e {
        possible.insert(n.clone());
        if !under_branch {
            definite.push(n.clone());
        }
    }
    for (fr, c) in children(e) {
        match fr {
            Frame::Same => frame_assigned(c, under_branch, definite, possible),
            Frame::Branch => frame_assigned(c, true, definite, possible),
            Frame::Inner => {}
        }
    }
}

pub fn stmt_expr(s: &Stmt) -> Option<E> {
    match s {
        Stmt::Expr(e) => Some(e.clone()),
        Stmt::Output(n, Some(e)) => Some(E::Assign(n.clone(), Box::new(e.clone()))),
        Stmt::Output(_, None) => None,
    }
}

pub struct FrameInfo {
    pub definite: Vec<String>,
    pub possible: BTreeSet<String>,
}

pub fn stmt_frame(s: &Stmt) -> FrameInfo {
    let mut definite = vec![];
    let mut possible = BTreeSet::new();
    if let Some(e) = stmt_expr(s) {
        frame_assigned(&e, false, &mut definite, &mut possible);
    }
    FrameInfo { definite, possible }
}

pub fn contains_raw(e: &E) -> bool {
    if matches!(e, E::Raw(_)) {
        return true;
    }
    children(e).iter().any(|(_, c)| contains_raw(c))
}

pub fn contains_assign(e: &E) -> bool {
    if matches!(e, E::Assign(..)) {
        return true;
    }
    children(e).iter().any(|(_, c)| contains_assign(c))
}

pub fn contains_assign_to(e: &E, name: &str) -> bool {
    if let E::Assign(n, _) = e {
        if n == name {
            return true;
        }
    }
    children(e).iter().any(|(_, c)| contains_assign_to(c, name))
}

/// All identifiers *read* anywhere in `e` that are not bound by an enclosing lambda
/// parameter or an earlier do-block local of the same block (lexical free names).
/// `shorthand_in_lambda` is set when a record shorthand occurs inside a lambda body (the
/// evaluator does not capture those: they are late-bound).
pub fn free_reads(e: &E, bound: &mut Vec<String>, in_lambda: bool, out: &mut BTreeSet<String>, shorthand_in_lambda: &mut bool) {
    match e {
        E::Id(n) => {
            if !bound.contains(n) {
                out.insert(n.clone());
            }
        }
        E::Rec(ks) => {
            for k in ks {
                match k {
                    RK::Static(_, v) => free_reads(v, bound, in_lambda, out, shorthand_in_lambda),
                    RK::Dyn(a, b) => {
                        free_reads(a, bound, in_lambda, out, shorthand_in_lambda);
                        free_reads(b, bound, in_lambda, out, shorthand_in_lambda);
                    }
                    RK::Short(n) => {
                        if !bound.contains(n) {
                            out.insert(n.clone());
                        }
                        if in_lambda {
                            *shorthand_in_lambda = true;
                        }
                    }
                    RK::Spread(v) => free_reads(v, bound, in_lambda, out, shorthand_in_lambda),
                }
            }
        }
        E::Lam(args, body) => {
            let mark = bound.len();
            for a in args {
                bound.push(a.name().to_string());
            }
            free_reads(body, bound, true, out, shorthand_in_lambda);
            bound.truncate(mark);
        }
        E::Do(ss, r) => {
            let mark = bound.len();
            for s in ss {
                if let E::Assign(n, v) = s {
                    free_reads(v, bound, in_lambda, out, shorthand_in_lambda);
                    bound.push(n.clone());
                } else {
                    free_reads(s, bound, in_lambda, out, shorthand_in_lambda);
                }
            }
            if let E::Assign(n, v) = &**r {
                free_reads(v, bound, in_lambda, out, shorthand_in_lambda);
                let _ = n;
            } else {
                free_reads(r, bound, in_lambda, out, shorthand_in_lambda);
            }
            bound.truncate(mark);
        }
        E::Raw(_) => {
            // opaque: callers must treat statements containing Raw as not analysable
        }
        _ => {
            for (_, c) in children(e) {
                free_reads(c, bound, in_lambda, out, shorthand_in_lambda);
            }
        }
    }
}

pub fn free_names(e: &E) -> (BTreeSet<String>, bool) {
    let mut out = BTreeSet::new();
    let mut sh = false;
    free_reads(e, &mut vec![], false, &mut out, &mut sh);
    (out, sh)
}

/// True if some lambda body inside `e` contains an assignment that is not a direct statement
/// of a do-block. Such an assignment is checked against the *caller's* scope chain at call
/// time ("already defined"), so the call's outcome legitimately depends on the call site.
pub fn lambda_has_checked_assign(e: &E, in_lambda: bool, direct_do_stmt: bool) -> bool {
    match e {
        E::Assign(_, v) => {
            if in_lambda && !direct_do_stmt {
                return true;
            }
            lambda_has_checked_assign(v, in_lambda, false)
        }
        E::Lam(_, b) => lambda_has_checked_assign(b, true, false),
        E::Do(ss, r) => ss.iter().any(|s| lambda_has_checked_assign(s, in_lambda, true)) || lambda_has_checked_assign(r, in_lambda, true),
        _ => children(e).iter().any(|(_, c)| lambda_has_checked_assign(c, in_lambda, false)),
    }
}

pub fn contains_lambda(e: &E) -> bool {
    if matches!(e, E::Lam(..)) {
        return true;
    }
    children(e).iter().any(|(_, c)| contains_lambda(c))
}

pub fn size(e: &E) -> usize {
    1 + children(e).iter().map(|(_, c)| size(c)).sum::<usize>()
}

// ---------------------------------------------------------------------------------------
// Generic shrinking candidates: every way of making `e` one step simpler.
// ---------------------------------------------------------------------------------------

pub fn shrink_candidates(e: &E) -> Vec<E> {
    let mut out = vec![];
    // replace the whole thing by one of its children or a literal
    match e {
        E::Num(_) | E::Null | E::Bool(_) => {}
        E::Str(s) if s.is_empty() => {}
        _ => {
            for (_, c) in children(e) {
                if !matches!(c, E::Spread(_)) {
                    out.push(c.clone());
                }
            }
            out.push(E::Num("0".into()));
        }
    }
    // drop list / record / call / do elements
    match e {
        E::List(xs) => {
            for i in 0..xs.len() {
                let mut v = xs.clone();
                v.remove(i);
                out.push(E::List(v));
            }
        }
        E::Rec(ks) => {
            for i in 0..ks.len() {
                let mut v = ks.clone();
                v.remove(i);
                out.push(E::Rec(v));
            }
        }
        E::Do(ss, r) => {
            for i in 0..ss.len() {
                let mut v = ss.clone();
                v.remove(i);
                out.push(E::Do(v, r.clone()));
            }
        }
        E::Call(f, args) => {
            for i in 0..args.len() {
                let mut v = args.clone();
                v.remove(i);
                out.push(E::Call(f.clone(), v));
            }
        }
        _ => {}
    }
    // recurse: replace one child by one of its candidates
    let n = children(e).len();
    for i in 0..n {
        let child = children(e)[i].1.clone();
        for cand in shrink_candidates(&child) {
            out.push(replace_child(e, i, cand));
        }
    }
    out
}

pub fn replace_child(e: &E, i: usize, new: E) -> E {
    let mut k = 0usize;
    let mut new = Some(new);
    let mut take = |orig: &E| -> E {
        let r = if k == i { new.take().unwrap() } else { orig.clone() };
        k += 1;
        r
    };
    match e {
        E::Num(_) | E::Str(_) | E::Bool(_) | E::Null | E::Id(_) | E::InRef(_) | E::Raw(_) => e.clone(),
        E::List(xs) => E::List(xs.iter().map(|x| take(x)).collect()),
        E::Rec(ks) => E::Rec(
            ks.iter()
                .map(|rk| match rk {
                    RK::Static(n, x) => RK::Static(n.clone(), take(x)),
                    RK::Dyn(a, b) => {
                        let a2 = take(a);
                        let b2 = take(b);
                        RK::Dyn(a2, b2)
                    }
                    RK::Short(n) => RK::Short(n.clone()),
                    RK::Spread(x) => RK::Spread(take(x)),
                })
                .collect(),
        ),
        E::Lam(a, b) => E::Lam(a.clone(), Box::new(take(b))),
        E::Assign(n, v) => E::Assign(n.clone(), Box::new(take(v))),
        E::Cond(c, t, f) => {
            let c2 = take(c);
            let t2 = take(t);
            let f2 = take(f);
            E::Cond(Box::new(c2), Box::new(t2), Box::new(f2))
        }
        E::Do(ss, r) => {
            let ss2: Vec<E> = ss.iter().map(|s| take(s)).collect();
            let r2 = take(r);
            E::Do(ss2, Box::new(r2))
        }
        E::Call(f, args) => {
            let f2 = take(f);
            let a2: Vec<E> = args.iter().map(|a| take(a)).collect();
            E::Call(Box::new(f2), a2)
        }
        E::Idx(a, b) => {
            let a2 = take(a);
            let b2 = take(b);
            E::Idx(Box::new(a2), Box::new(b2))
        }
        E::Bin(op, a, b) => {
            let a2 = take(a);
            let b2 = take(b);
            E::Bin(op.clone(), Box::new(a2), Box::new(b2))
        }
        E::Dot(a, f) => E::Dot(Box::new(take(a)), f.clone()),
        E::Neg(a) => E::Neg(Box::new(take(a))),
        E::Not(a) => E::Not(Box::new(take(a))),
        E::Fact(a) => E::Fact(Box::new(take(a))),
        E::Spread(a) => E::Spread(Box::new(take(a))),
    }
}

/// Enumerate all sub-expressions of `e` in strict positions (same frame, unconditionally
/// evaluated, not a spread, not the target itself), as paths of child indices.
pub fn strict_paths(e: &E, path: &mut Vec<usize>, out: &mut Vec<Vec<usize>>) {
    for (i, (fr, c)) in children(e).iter().enumerate() {
        if *fr == Frame::Same && !matches!(c, E::Spread(_)) && !matches!(e, E::Assign(..)) {
            path.push(i);
            out.push(path.clone());
            strict_paths(c, path, out);
            path.pop();
        } else if *fr == Frame::Same {
            // descend through spreads / assignment values without offering them
            path.push(i);
            strict_paths(c, path, out);
            path.pop();
        }
    }
}

pub fn get_path<'a>(e: &'a E, path: &[usize]) -> &'a E {
    let mut cur = e;
    for i in path {
        cur = children(cur)[*i].1;
    }
    cur
}

pub fn replace_path(e: &E, path: &[usize], new: E) -> E {
    if path.is_empty() {
        return new;
    }
    let child = children(e)[path[0]].1.clone();
    let replaced = replace_path(&child, &path[1..], new);
    replace_child(e, path[0], replaced)
}

//! Engine c03 — "bindings are immutable and scoped", decided by simulating sessions against
//! the real evaluator with a failure injected at every evaluation step (crash-point
//! enumeration in single-process form) and an observational model checked after every
//! statement.

use crate::common::*;
use crate::hast::*;
use crate::prng::{Rng, fnv64, mix};
use crate::seams::{ClockScript, on_sim_thread};
use crate::session::*;
use blots_core::verif_hooks::Site;
use serde::{Deserialize, Serialize};
use serde_json::json;
use std::collections::{BTreeMap, BTreeSet};

/// The name alphabet: short names, plus the names an interactive front end conventionally
/// claims for itself (last result: `ans`, `_`, `it`) - to the language they are ordinary names.
pub const NAMES: &[&str] = &["a", "b", "c", "d", "f", "g", "fs", "r", "s", "ans", "_", "it"];
/// names the generator uses for parameters and do-block locals
pub const LOCAL_NAMES: &[&str] = &["x", "y", "t", "m", "n", "k", "o", "v", "w", "xs", "acc", "more", "rest", "deep", "zt", "zf", "zr", "zo", "zz", "zk"];

#[derive(Clone, Debug, Serialize, Deserialize, PartialEq)]
pub enum Fault {
    /// Inject a RuntimeError at hook step `step` (1-based) of statement `stmt`.
    Step { stmt: usize, step: u64 },
    /// Start statement `stmt` at call depth `depth0` (natural "maximum call depth" failure).
    Depth { stmt: usize, depth0: usize },
}

#[derive(Clone, Debug, Serialize, Deserialize, PartialEq)]
pub struct SStmt {
    pub stmt: Stmt,
    pub kind: String,
}

#[derive(Clone, Debug, Serialize, Deserialize, PartialEq)]
pub struct Scenario {
    pub hash_seed: u64,
    pub clock: ClockScript,
    /// true: the whole session is one multi-line source (file / wasm style);
    /// false: every statement is its own source text (REPL style).
    pub file_style: bool,
    pub probe_every: bool,
    pub inputs_json: String,
    pub stmts: Vec<SStmt>,
    pub faults: Vec<Fault>,
}

pub fn builtin_names() -> BTreeSet<String> {
    blots_core::functions::get_built_in_function_idents().into_iter().map(|s| s.to_string()).collect()
}

/// The built-in names in a fixed (sorted) order.
fn all_builtin_names() -> &'static Vec<String> {
    static ALL: std::sync::OnceLock<Vec<String>> = std::sync::OnceLock::new();
    ALL.get_or_init(|| builtin_names().into_iter().collect())
}

// ---------------------------------------------------------------------------------------
// Generator
// ---------------------------------------------------------------------------------------

#[derive(Clone, Copy, PartialEq, Debug)]
enum Ty {
    Num,
    Str,
    List,
    Rec,
    Fun,
    FunHandle, // list/record containing functions
}

struct Gen<'a> {
    rng: &'a mut Rng,
    bound: BTreeMap<String, Ty>,
}

impl<'a> Gen<'a> {
    fn free_name(&mut self) -> Option<String> {
        let free: Vec<&&str> = NAMES.iter().filter(|n| !self.bound.contains_key(**n)).collect();
        if free.is_empty() { None } else { Some((**self.rng.pick(&free)).to_string()) }
    }
    fn any_name(&mut self) -> String {
        (*self.rng.pick(NAMES)).to_string()
    }
    fn bound_of(&mut self, tys: &[Ty]) -> Option<String> {
        let c: Vec<String> = self.bound.iter().filter(|(_, t)| tys.contains(t)).map(|(n, _)| n.clone()).collect();
        if c.is_empty() { None } else { Some(self.rng.pick(&c).clone()) }
    }
    fn bound_any(&mut self) -> Option<String> {
        let c: Vec<String> = self.bound.keys().cloned().collect();
        if c.is_empty() { None } else { Some(self.rng.pick(&c).clone()) }
    }
    fn small_num(&mut self) -> E {
        match self.rng.below(10) {
            0 => numf("0.5"),
            1 => numf("1e3"),
            2 => num(-(self.rng.range(1, 9))),
            _ => num(self.rng.range(0, 20)),
        }
    }
    fn small_str(&mut self) -> E {
        st(*self.rng.pick(&["x", "héllo", "", "a b", "k", "zz"]))
    }
    fn data(&mut self, depth: u32) -> (E, Ty) {
        // values at the edges of each kind: null (written, and computed), booleans, zero, empties
        if self.rng.chance(1, 6) {
            let e = match self.rng.below(10) {
                0 => E::Null,
                1 => idx(E::List(vec![num(1)]), num(9)),
                2 => dot(E::Rec(vec![RK::Static("k".into(), num(1))]), "nokey"),
                3 => E::InRef("missing".into()),
                4 => E::Bool(self.rng.chance(1, 2)),
                5 => num(0),
                6 => return (E::List(vec![]), Ty::List),
                7 => return (E::Rec(vec![]), Ty::Rec),
                8 => return (st(""), Ty::Str),
                _ => cond(E::Bool(false), num(1), E::Null),
            };
            return (e, Ty::Num);
        }
        match self.rng.below(if depth == 0 { 4 } else { 2 }) {
            0 => (self.small_num(), Ty::Num),
            1 => (self.small_str(), Ty::Str),
            2 => {
                let n = if self.rng.chance(1, 2) { self.rng.range(5, 9) as usize } else { self.rng.below(4) as usize };
                let nested = self.rng.chance(1, 5);
                let xs = (0..n).map(|_| if nested || self.rng.chance(1, 6) { self.data(depth + 1).0 } else { self.small_num() }).collect();
                (E::List(xs), Ty::List)
            }
            _ => {
                let n = self.rng.below(3) as usize + 1;
                let keys = ["k", "m", "x", "y"];
                let ks = (0..n).map(|i| RK::Static(keys[i].to_string(), self.data(depth + 1).0)).collect();
                (E::Rec(ks), Ty::Rec)
            }
        }
    }
    /// An expression over bound names that is likely to evaluate (not required to).
    fn reader(&mut self) -> E {
        match self.bound_any() {
            None => self.small_num(),
            Some(n) => match self.bound[&n] {
                Ty::Num => bin(*self.rng.pick(&["+", "*", "-"]), id(&n), self.small_num()),
                Ty::Str => bin("+", id(&n), self.small_str()),
                Ty::List => match self.rng.below(4) {
                    0 => call(id("len"), vec![id(&n)]),
                    1 => idx(id(&n), num(0)),
                    2 => E::List(vec![E::Spread(Box::new(id(&n))), self.small_num()]),
                    _ => id(&n),
                },
                Ty::Rec => match self.rng.below(3) {
                    0 => dot(id(&n), "k"),
                    1 => call(id("keys"), vec![id(&n)]),
                    _ => id(&n),
                },
                Ty::Fun => call(id(&n), vec![self.small_num()]),
                Ty::FunHandle => id(&n),
            },
        }
    }
    /// `e` reached through a route that returns the very same heap value.
    fn alias_path(&mut self, e: E) -> E {
        match self.rng.below(10) {
            0 => call(lam(&["x"], id("x")), vec![e]),
            1 => bin("into", e, lam(&["x"], id("x"))),
            2 => idx(E::List(vec![e]), num(0)),
            3 => cond(E::Bool(true), e, E::Null),
            4 => doblk(vec![], e),
            5 => dot(E::Rec(vec![RK::Static("k".into(), e)]), "k"),
            6 => call(E::Lam(vec![], Box::new(e)), vec![]),
            // `via` applied to a non-list is a plain call: a function that hands the value back
            7 => bin("via", E::Rec(vec![RK::Static("items".into(), e)]), lam(&["d"], dot(id("d"), "items"))),
            _ => e,
        }
    }

    /// `inner` (an assignment) placed at some evaluated position of a larger expression.
    fn in_position(&mut self, inner: E) -> E {
        match self.rng.below(24) {
            // positions that are NOT evaluated: the branch of a conditional that is not taken
            // (at top level, inside a do-block, inside a call)
            20 => cond(E::Bool(false), inner, num(0)),
            21 => cond(E::Bool(true), num(0), inner),
            22 => doblk(vec![assign("t", cond(E::Bool(true), num(0), inner))], id("t")),
            23 => call(lam(&["v"], cond(bin(".<", num(1), num(2)), id("v"), inner)), vec![num(3)]),
            0 => E::List(vec![inner, self.small_num()]),
            1 => E::Rec(vec![RK::Static("k".into(), inner)]),
            2 => bin("+", inner, num(1)),
            3 => bin("*", num(2), inner),
            4 => call(id("len"), vec![E::List(vec![inner])]),
            5 => E::Rec(vec![RK::Dyn(st("dk"), inner)]),
            6 => E::Rec(vec![RK::Dyn(bin("+", st("d"), call(id("to_string"), vec![inner])), num(1))]),
            7 => call(lam(&["v"], id("v")), vec![inner]),
            8 => E::List(vec![E::Spread(Box::new(E::List(vec![inner])))]),
            9 => cond(E::Bool(true), inner, num(0)),
            10 => cond(bin(".==", inner, num(1)), num(1), num(2)),
            11 => bin("??", inner, num(0)),
            12 => bin("into", inner, lam(&["v"], id("v"))),
            13 => bin("via", E::List(vec![inner]), lam(&["v"], id("v"))),
            14 => E::Rec(vec![RK::Spread(E::Rec(vec![RK::Static("k".into(), inner)]))]),
            15 => idx(E::List(vec![inner]), num(0)),
            16 => dot(E::Rec(vec![RK::Static("k".into(), inner)]), "k"),
            17 => call(id("concat"), vec![E::List(vec![num(1)]), E::List(vec![inner])]),
            18 => bin(".==", E::List(vec![inner.clone()]), E::List(vec![num(1)])),
            _ => E::List(vec![E::List(vec![E::Rec(vec![RK::Static("deep".into(), inner)])])]),
        }
    }

    fn lambda(&mut self, self_name: Option<&str>) -> E {
        let p = (*self.rng.pick(&["x", "n", "a", "b", "k"])).to_string(); // may shadow a bound name
        match self.rng.below(11) {
            0 | 1 if self_name.is_some() => {
                // self-recursive
                let me = self_name.unwrap();
                let base = if self.rng.chance(1, 2) { st("done") } else { num(0) };
                let rec = call(id(me), vec![bin("-", id(&p), num(1))]);
                let step = if matches!(base, E::Str(_)) { rec } else { bin("+", num(1), rec) };
                E::Lam(vec![Arg::Req(p.clone())], Box::new(cond(bin(".<=", id(&p), num(0)), base, step)))
            }
            2 => {
                // closure over a bound name
                match self.bound_of(&[Ty::Num, Ty::List, Ty::Str, Ty::Rec]) {
                    Some(c) if c != p => E::Lam(vec![Arg::Req(p.clone())], Box::new(E::List(vec![id(&p), id(&c)]))),
                    _ => lam(&[&p], bin("+", id(&p), num(1))),
                }
            }
            3 => E::Lam(vec![Arg::Req(p.clone()), Arg::Opt("o".into())], Box::new(E::List(vec![id(&p), id("o")]))),
            4 => E::Lam(vec![Arg::Req(p.clone()), Arg::Rest("rest".into())], Box::new(call(id("len"), vec![id("rest")]))),
            5 => {
                // body assigns (must stay local to the call)
                let q = self.any_name();
                lam(&[&p], E::Assign(q, Box::new(id(&p))))
            }
            6 => {
                // body with a do-block that shadows
                let q = self.any_name();
                lam(&[&p], doblk(vec![assign(&q, bin("*", id(&p), num(2)))], id(&q)))
            }
            7 => {
                // closure factory whose inner function re-defines, inside a do-block, a name it
                // also reads from the enclosing function (its parameter)
                let inner = match self.rng.below(3) {
                    0 => doblk(vec![assign(&p, bin("+", id(&p), id("m")))], id(&p)),
                    1 => doblk(vec![assign("y", bin("*", id(&p), id("m"))), assign(&p, num(0))], E::List(vec![id("y"), id(&p)])),
                    _ => doblk(vec![assign("t", id(&p))], doblk(vec![assign(&p, bin("+", id("t"), id("m")))], id(&p))),
                };
                E::Lam(vec![Arg::Req(p.clone())], Box::new(lam(&["m"], inner)))
            }
            8 => {
                // reads a name that is bound nowhere yet: late-bound, resolved where it is called
                let cands: Vec<&str> = ["k", "n", "m", "y", "t"].into_iter().filter(|c| *c != p).collect();
                let l = (*self.rng.pick(&cands)).to_string();
                if self.rng.chance(1, 2) { lam(&[&p], bin("+", id(&p), id(&l))) } else { lam(&[&p], E::List(vec![id(&p), id(&l)])) }
            }
            9 | 10 => {
                // the rest list (or the optional parameter) itself escapes the call: returned as
                // is, inside a record, or captured by a returned closure - it is an ordinary
                // value that outlives the call and must not change when the function is called again
                let r = (*self.rng.pick(&["rest", "more", "xs"])).to_string();
                let body = match self.rng.below(4) {
                    0 => id(&r),
                    1 => E::Rec(vec![RK::Static("r".into(), id(&r)), RK::Static("p".into(), id(&p))]),
                    2 => E::Lam(vec![], Box::new(id(&r))),
                    _ => E::List(vec![id(&r), id(&p)]),
                };
                if self.rng.chance(1, 3) {
                    E::Lam(vec![Arg::Opt(p.clone()), Arg::Rest(r)], Box::new(body))
                } else {
                    E::Lam(vec![Arg::Req(p.clone()), Arg::Rest(r)], Box::new(body))
                }
            }
            _ => lam(&[&p], bin("+", id(&p), num(1))),
        }
    }

    fn stmt(&mut self) -> (Stmt, &'static str) {
        let w = [
            10, // 0 bind data
            10, // 1 bind lambda
            6,  // 2 rebind
            5,  // 3 bind reserved
            6,  // 4 alias
            12, // 5 nested assignment
            8,  // 6 do-block shadow
            10, // 7 call shadow
            6,  // 8 callback assigns
            14, // 9 builtin on bound
            5,  // 10 output
            8,  // 11 failing
            4,  // 12 observe
            6,  // 13 handle
            7,  // 14 self-nested
            3,  // 15 closure-returning do block
            8,  // 16 derive
            7,  // 17 do-block with a local alias of a binding next to other locals
        ];
        let k = self.rng.pick_weighted(&w);
        match k {
            0 if self.rng.chance(1, 3) && self.bound_of(&[Ty::Fun]).is_some() => {
                let n = self.free_name().unwrap_or_else(|| self.any_name());
                let f = self.bound_of(&[Ty::Fun]).unwrap();
                self.bound.entry(n.clone()).or_insert(Ty::Fun);
                let mut args = vec![self.small_num()];
                // sometimes more arguments than parameters are likely to be required (rest
                // parameters collect them), sometimes spread from a list literal
                if self.rng.chance(1, 2) {
                    for _ in 0..self.rng.range(1, 3) {
                        args.push(self.small_num());
                    }
                    if self.rng.chance(1, 4) {
                        args = vec![args[0].clone(), E::Spread(Box::new(E::List(args[1..].to_vec())))];
                    }
                }
                (Stmt::Expr(assign(&n, call(id(&f), args))), "bind-call-result")
            }
            0 => {
                let n = self.free_name().unwrap_or_else(|| self.any_name());
                let (e, ty) = if self.rng.chance(1, 3) { (self.reader(), Ty::Num) } else { self.data(0) };
                self.bound.entry(n.clone()).or_insert(ty);
                (Stmt::Expr(assign(&n, e)), "bind-data")
            }
            1 => {
                let n = self.free_name().unwrap_or_else(|| self.any_name());
                let l = self.lambda(Some(&n));
                self.bound.entry(n.clone()).or_insert(Ty::Fun);
                (Stmt::Expr(assign(&n, l)), "bind-lambda")
            }
            2 => {
                let n = self.bound_any().unwrap_or_else(|| self.any_name());
                let e = if self.rng.chance(1, 2) { self.data(0).0 } else { self.lambda(Some(&n)) };
                (Stmt::Expr(assign(&n, e)), "rebind")
            }
            3 => {
                // half of the time any of the built-in names (the whole table, so that a test of
                // the name that is wrong for a few of them is met), else the usual suspects
                let r: String = if self.rng.chance(1, 2) {
                    let all = all_builtin_names();
                    all[self.rng.usize_below(all.len())].clone()
                } else {
                    (*self.rng.pick(&[
                        "sum", "map", "len", "inputs", "constants", "if", "then", "else", "true", "false", "null", "and", "or", "not",
                        "do", "return", "output", "sort", "print", "time_now", "range", "keys",
                    ]))
                    .to_string()
                };
                let r = r.as_str();
                let e = self.data(0).0;
                if self.rng.chance(1, 5) && !KEYWORDS.contains(&r) {
                    // reserved name shadowed inside a do-block / as a parameter: legal there,
                    // must never reach the root environment
                    let b = match self.rng.below(4) {
                        0 => doblk(vec![], assign(r, e)),
                        1 => doblk(vec![assign(r, e)], num(1)),
                        2 => call(E::Lam(vec![], Box::new(assign(r, e))), vec![]),
                        _ => doblk(vec![bin("+", num(1), num(1))], E::List(vec![assign(r, e)])),
                    };
                    return (Stmt::Expr(b), "reserved-in-inner-scope");
                }
                if self.rng.chance(1, 4) {
                    // nested position
                    (Stmt::Expr(E::List(vec![E::Raw(format!("{} = {}", r, show(&e)))])), "bind-reserved-nested")
                } else if self.rng.chance(1, 5) {
                    (Stmt::Output(r.to_string(), Some(e)), "output-reserved")
                } else {
                    (Stmt::Expr(E::Raw(format!("{} = {}", r, show(&e)))), "bind-reserved")
                }
            }
            4 => {
                let n = self.free_name().unwrap_or_else(|| self.any_name());
                match self.rng.below(3) {
                    0 => match self.bound_of(&[Ty::FunHandle]) {
                        Some(h) => {
                            self.bound.entry(n.clone()).or_insert(Ty::Fun);
                            (Stmt::Expr(assign(&n, idx(id(&h), num(0)))), "alias-through-handle")
                        }
                        None => {
                            let src = self.bound_any().unwrap_or_else(|| "f".into());
                            let ty = self.bound.get(&src).copied().unwrap_or(Ty::Num);
                            self.bound.entry(n.clone()).or_insert(ty);
                            (Stmt::Expr(assign(&n, id(&src))), "alias")
                        }
                    },
                    _ => {
                        let src = self.bound_of(&[Ty::Fun]).or_else(|| self.bound_any()).unwrap_or_else(|| "f".into());
                        let ty = self.bound.get(&src).copied().unwrap_or(Ty::Num);
                        self.bound.entry(n.clone()).or_insert(ty);
                        (Stmt::Expr(assign(&n, id(&src))), "alias")
                    }
                }
            }
            5 => {
                let n = if self.rng.chance(3, 4) { self.free_name().unwrap_or_else(|| self.any_name()) } else { self.any_name() };
                let v = self.data(1).0;
                let inner = assign(&n, v);
                if self.rng.chance(1, 2) {
                    // any evaluated position; the target is fresh, already bound (must fail) or
                    // a reserved non-keyword name (must fail)
                    let target = match self.rng.below(6) {
                        0 => self.bound_any().unwrap_or(n.clone()),
                        1 if self.rng.chance(1, 2) => {
                            let all = all_builtin_names();
                            all[self.rng.usize_below(all.len())].clone()
                        }
                        1 => (*self.rng.pick(&["sum", "map", "inputs", "constants", "len", "keys", "print", "time_now", "ugt", "to_string"])).to_string(),
                        _ => n.clone(),
                    };
                    let inner = assign(&target, self.data(1).0);
                    let e = self.in_position(inner);
                    if target == n {
                        self.bound.entry(n).or_insert(Ty::Num);
                    }
                    return (Stmt::Expr(e), "nested-assign-position");
                }
                let e = match self.rng.below(7) {
                    0 => E::List(vec![inner, self.small_num()]),
                    1 => E::Rec(vec![RK::Static("k".into(), inner)]),
                    2 => bin("+", inner, num(1)),
                    3 => {
                        let m = self.any_name();
                        cond(E::Bool(self.rng.chance(1, 2)), inner, assign(&m, num(7)))
                    }
                    4 => call(id("len"), vec![E::List(vec![inner])]),
                    5 => {
                        // outer binds another name from an inner assignment
                        let m = self.free_name().unwrap_or_else(|| self.any_name());
                        self.bound.entry(m.clone()).or_insert(Ty::List);
                        assign(&m, E::List(vec![inner, id(&n)]))
                    }
                    _ => E::List(vec![inner.clone(), inner]),
                };
                self.bound.entry(n).or_insert(Ty::Num);
                (Stmt::Expr(e), "nested-assign")
            }
            6 => {
                let s1 = self.any_name();
                let s2 = self.any_name();
                let body = match self.rng.below(10) {
                    4 => doblk(vec![], assign(&s1, num(5))),
                    5 => doblk(vec![call(id("len"), vec![E::List(vec![])])], assign(&s1, num(6))),
                    6 => doblk(vec![bin("*", assign(&s1, num(4)), num(2))], bin("+", id(&s1), num(1))),
                    7 => doblk(vec![cond(E::Bool(true), assign(&s1, num(1)), num(2))], num(0)),
                    8 => doblk(vec![assign(&s2, num(1))], doblk(vec![], assign(&s2, num(2)))),
                    9 => doblk(vec![call(id("len"), vec![E::List(vec![assign(&s1, num(3))])])], assign(&s2, id(&s1))),
                    0 => doblk(vec![assign(&s1, num(5))], id(&s1)),
                    1 => doblk(vec![assign(&s1, num(5)), assign(&s2, bin("+", id(&s1), num(1)))], E::List(vec![id(&s1), id(&s2)])),
                    2 => doblk(vec![assign("x", E::List(vec![assign(&s1, num(2))]))], id("x")),
                    _ => doblk(vec![assign(&s1, self.reader())], doblk(vec![assign(&s1, num(1))], id(&s1))),
                };
                if self.rng.chance(1, 2) {
                    let n = self.free_name().unwrap_or_else(|| self.any_name());
                    self.bound.entry(n.clone()).or_insert(Ty::Num);
                    (Stmt::Expr(assign(&n, body)), "do-shadow-rhs")
                } else {
                    (Stmt::Expr(body), "do-shadow")
                }
            }
            7 => {
                let p = self.any_name();
                match self.rng.below(6) {
                    3 => {
                        let q = self.any_name();
                        (Stmt::Expr(call(E::Lam(vec![], Box::new(E::Assign(q, Box::new(num(8))))), vec![])), "call-zero-arg-assigns")
                    }
                    4 => {
                        let q = self.any_name();
                        (Stmt::Expr(call(E::Lam(vec![], Box::new(doblk(vec![], E::Assign(q, Box::new(num(8)))))), vec![])), "call-zero-arg-assigns")
                    }
                    5 => {
                        let q = self.any_name();
                        (
                            Stmt::Expr(call(E::Lam(vec![Arg::Opt(p.clone()), Arg::Rest("more".into())], Box::new(E::List(vec![E::Assign(q, Box::new(id("more"))), id(&p)]))), vec![num(1), num(2)])),
                            "call-body-assigns",
                        )
                    }
                    0 => (Stmt::Expr(call(lam(&[&p], bin("+", id(&p), num(1))), vec![num(5)])), "call-shadow-param"),
                    1 => {
                        let q = self.any_name();
                        // the argument is a literal, or the caller's binding of the same name
                        let arg = if self.rng.chance(1, 2) { id(&p) } else { num(3) };
                        (Stmt::Expr(call(lam(&[&p], E::Assign(q, Box::new(id(&p)))), vec![arg])), "call-body-assigns")
                    }
                    _ => match self.bound_of(&[Ty::Fun]) {
                        Some(f) => {
                            // argument forms: a literal, or a bound name (often spelled like a
                            // parameter: x n a b k), or an expression over one
                            let arg = match self.rng.below(4) {
                                0 => self.small_num(),
                                1 => match self.bound_any() {
                                    Some(n) => id(&n),
                                    None => self.small_num(),
                                },
                                2 => id(*self.rng.pick(&["a", "b", "x", "n", "k"])),
                                _ => match self.bound_any() {
                                    Some(n) => bin("+", id(&n), num(0)),
                                    None => self.small_num(),
                                },
                            };
                            (Stmt::Expr(call(id(&f), vec![arg])), "call-bound")
                        }
                        None => (Stmt::Expr(call(lam(&[&p], id(&p)), vec![num(1)])), "call-shadow-param"),
                    },
                }
            }
            8 => {
                let q = self.any_name();
                let xs = E::List(vec![num(1), num(2)]);
                let cb = lam(&["x"], E::Assign(q.clone(), Box::new(id("x"))));
                let e = match self.rng.below(5) {
                    0 => bin("via", xs, cb),
                    1 => call(id("map"), vec![xs, cb]),
                    2 => call(
                        id("reduce"),
                        vec![xs, E::Lam(vec![Arg::Req("acc".into()), Arg::Req("x".into())], Box::new(E::Assign(q, Box::new(bin("+", id("acc"), id("x")))))), num(0)],
                    ),
                    3 => bin("where", xs, lam(&["x"], bin(".>", E::Assign(q, Box::new(id("x"))), num(1)))),
                    _ => bin("into", num(4), cb),
                };
                (Stmt::Expr(e), "callback-assigns")
            }
            9 => match if self.rng.chance(3, 5) { self.bound_of(&[Ty::List]) } else { None } {
                Some(l) => {
                    // sometimes the operand is a value nested inside a bound one (inner list of a
                    // bound list, field of the inputs record)
                    let base = match self.rng.below(8) {
                        0 => idx(id(&l), num(0)),
                        1 => dot(id("inputs"), "xs"),
                        _ => id(&l),
                    };
                    let target = self.alias_path(base);
                    let e = match self.rng.below(16) {
                        0 => call(id("sort"), vec![target]),
                        1 => call(id("reverse"), vec![target]),
                        2 => call(id("concat"), vec![target, E::List(vec![num(1)])]),
                        3 => call(id("unique"), vec![target]),
                        4 => E::List(vec![E::Spread(Box::new(target)), num(9)]),
                        5 => call(id("sort_by"), vec![target, lam(&["x"], E::Neg(Box::new(id("x"))))]),
                        6 => bin(*self.rng.pick(&["*", "-", "/", "%", "^", "+"]), target, self.small_num()),
                        7 => bin(*self.rng.pick(&["*", "-", "+"]), self.small_num(), target),
                        8 => bin(*self.rng.pick(&["+", "*"]), target, id(&l)),
                        9 if self.rng.chance(1, 2) => {
                            // a pipeline of two or three stages
                            let s1 = bin("via", target, lam(&["x"], bin("*", id("x"), num(2))));
                            let s2 = if self.rng.chance(1, 2) { bin("where", s1, lam(&["x"], bin(".>", id("x"), num(2)))) } else { bin("via", s1, lam(&["x"], bin("+", id("x"), num(1)))) };
                            if self.rng.chance(1, 3) { bin("via", s2, E::Lam(vec![Arg::Req("x".into()), Arg::Req("i".into())], Box::new(bin("+", id("x"), id("i"))))) } else { s2 }
                        }
                        9 => bin("via", target, lam(&["x"], bin("*", id("x"), num(2)))),
                        10 => bin("where", target, lam(&["x"], bin(".>", id("x"), num(1)))),
                        11 => match self.rng.below(4) {
                            0 => call(id("map"), vec![target, lam(&["x"], cond(bin(".<", id("x"), num(3)), id("x"), bin("+", id("x"), st("!"))))]),
                            1 => call(id("map"), vec![target, lam(&["x"], call(id("len"), vec![id(&l)]))]),
                            2 => call(id(*self.rng.pick(&["filter", "every", "some"])), vec![target, lam(&["x"], bin(".>", call(id("len"), vec![id(&l)]), id("x")))]),
                            _ => call(id("map"), vec![target, lam(&["x"], bin("+", id("x"), num(1)))]),
                        },
                        12 => call(id(*self.rng.pick(&["flatten", "tail", "head", "len", "sum", "max"])), vec![target]),
                        13 => call(id("slice"), vec![target, num(0), num(1)]),
                        14 => call(id("zip"), vec![target, id(&l)]),
                        15 if self.rng.chance(1, 2) => {
                            // the list spread into a rest parameter (or passed whole) and worked on
                            // inside the callee
                            let body = match self.rng.below(5) {
                                0 => call(id("reverse"), vec![id("xs")]),
                                1 => bin("*", id("xs"), num(2)),
                                2 => call(id("sort"), vec![id("xs")]),
                                3 => call(id("concat"), vec![id("xs"), E::List(vec![num(1)])]),
                                _ => E::List(vec![E::Spread(Box::new(id("xs"))), num(0)]),
                            };
                            if self.rng.chance(1, 2) {
                                call(E::Lam(vec![Arg::Rest("xs".into())], Box::new(body)), vec![E::Spread(Box::new(target))])
                            } else {
                                call(E::Lam(vec![Arg::Req("xs".into()), Arg::Opt("o".into())], Box::new(body)), vec![target])
                            }
                        }
                        _ => bin("??", target, num(0)),
                    };
                    // repeat the operation so that an in-place effect becomes visible twice
                    let e = if self.rng.chance(1, 3) { E::List(vec![e.clone(), e, id(&l)]) } else { e };
                    (Stmt::Expr(e), "builtin-on-bound")
                }
                None if self.bound_of(&[Ty::Str]).is_some() && self.rng.chance(3, 5) => {
                    let sname = self.bound_of(&[Ty::Str]).unwrap();
                    let target = self.alias_path(id(&sname));
                    let other = self.bound_of(&[Ty::Str]).unwrap_or(sname.clone());
                    let e = match self.rng.below(14) {
                        10 => bin("+", id(&sname), id(&sname)),
                        11 => bin("+", id(&sname), id(&other)),
                        12 => call(id("reduce"), vec![E::List(vec![id(&other), id(&sname)]), E::Lam(vec![Arg::Req("acc".into()), Arg::Req("w".into())], Box::new(bin("+", id("acc"), id("w")))), id(&sname)]),
                        13 => bin("+", E::List(vec![id(&sname), id(&other)]), id(&sname)),
                        0 => bin("+", target, st("!")),
                        1 => bin("+", st(">"), target),
                        2 => call(id(*self.rng.pick(&["uppercase", "lowercase", "trim"])), vec![target]),
                        3 => call(id("replace"), vec![target, st("a"), st("b")]),
                        4 => call(id("split"), vec![target, st("")]),
                        5 => E::List(vec![E::Spread(Box::new(target))]),
                        6 => call(id("slice"), vec![target, num(0), num(1)]),
                        7 => call(id(*self.rng.pick(&["head", "tail", "len", "to_string"])), vec![target]),
                        8 => call(id("format"), vec![st("{}{}"), target, id(&sname)]),
                        _ => call(id("join"), vec![E::List(vec![target, id(&sname)]), st("")]),
                    };
                    (Stmt::Expr(e), "builtin-on-bound")
                }
                None => match self.bound_of(&[Ty::Rec]) {
                    Some(r) => {
                        let target = self.alias_path(id(&r));
                        let e = match self.rng.below(10) {
                            4 => E::Rec(vec![RK::Spread(target), RK::Dyn(st("k"), num(7))]),
                            5 => E::Rec(vec![RK::Spread(target), RK::Spread(id(&r))]),
                            6 => E::Rec(vec![RK::Dyn(st("k"), num(1)), RK::Spread(target)]),
                            7 => call(id("reverse"), vec![dot(target, "x")]),
                            8 => bin("*", dot(target, "x"), num(3)),
                            9 => call(id("concat"), vec![dot(target, "x"), E::List(vec![num(0)])]),
                            0 => E::Rec(vec![RK::Spread(target), RK::Static("k".into(), num(1))]),
                            1 => call(id(*self.rng.pick(&["keys", "values", "entries"])), vec![target]),
                            2 => E::Rec(vec![RK::Static("k".into(), num(1)), RK::Spread(target)]),
                            _ => dot(target, "k"),
                        };
                        (Stmt::Expr(e), "builtin-on-bound")
                    }
                    None => (Stmt::Expr(call(id("sort"), vec![E::List(vec![num(3), num(1)])])), "builtin-on-bound"),
                },
            },
            10 => {
                if self.rng.chance(1, 2) {
                    let n = self.bound_any().unwrap_or_else(|| self.any_name());
                    (Stmt::Output(n, None), "output-name")
                } else {
                    let n = if self.rng.chance(3, 4) { self.free_name().unwrap_or_else(|| self.any_name()) } else { self.any_name() };
                    if self.rng.chance(1, 3) {
                        // the declared value itself binds another name (at any evaluated position)
                        let m = if self.rng.chance(3, 4) { self.free_name().unwrap_or_else(|| self.any_name()) } else { self.any_name() };
                        let inner = assign(&m, self.data(1).0);
                        let e = self.in_position(inner);
                        if m != n {
                            self.bound.entry(m).or_insert(Ty::Num);
                        }
                        self.bound.entry(n.clone()).or_insert(Ty::Num);
                        return (Stmt::Output(n, Some(e)), "output-assign-nested");
                    }
                    let e = if self.rng.chance(1, 4) { self.lambda(Some(&n)) } else { self.data(0).0 };
                    let ty = if matches!(e, E::Lam(..)) { Ty::Fun } else { Ty::Num };
                    self.bound.entry(n.clone()).or_insert(ty);
                    (Stmt::Output(n, Some(e)), "output-assign")
                }
            }
            11 => {
                let n = self.free_name().unwrap_or_else(|| self.any_name());
                let m = self.any_name();
                let bad = bin("+", num(1), st("x"));
                let e = match self.rng.below(9) {
                    0 => assign(&n, bad),
                    1 => assign(&n, id("nosuch")),
                    2 => assign(&n, call(lam(&["x"], id("x")), vec![])),
                    3 => assign(&n, cond(num(1), num(2), num(3))),
                    4 => E::List(vec![assign(&m, num(2)), bad]),
                    5 => assign(&n, E::List(vec![assign(&m, num(2)), bad])),
                    6 => assign(&n, doblk(vec![assign("x", call(lam(&["y"], bin("+", id("y"), st("s"))), vec![num(1)]))], id("x"))),
                    7 => assign(&n, call(id("map"), vec![E::List(vec![num(1), st("q")]), lam(&["x"], bin("*", id("x"), num(2)))])),
                    _ => assign(&n, E::Rec(vec![RK::Static("k".into(), assign(&m, num(1))), RK::Dyn(num(5), num(1))])),
                };
                (Stmt::Expr(e), "failing")
            }
            12 => {
                let e = match self.bound_any() {
                    Some(n) => {
                        if self.rng.chance(1, 2) { id(&n) } else { E::List(vec![id(&n), self.reader()]) }
                    }
                    None => id("a"),
                };
                (Stmt::Expr(e), "observe")
            }
            13 => {
                let n = self.free_name().unwrap_or_else(|| self.any_name());
                let f = self.bound_of(&[Ty::Fun]).unwrap_or_else(|| "f".into());
                let e = match self.rng.below(3) {
                    0 => E::List(vec![id(&f)]),
                    1 => E::Rec(vec![RK::Static("h".into(), id(&f))]),
                    _ => E::List(vec![id(&f), self.lambda(None)]),
                };
                self.bound.entry(n.clone()).or_insert(Ty::FunHandle);
                (Stmt::Expr(assign(&n, e)), "handle")
            }
            14 => {
                let n = self.free_name().unwrap_or_else(|| self.any_name());
                let e = match self.rng.below(7) {
                    4 | 5 | 6 => {
                        // the inner assignment to the same name at any evaluated position
                        let v = self.data(1).0;
                        let inner = assign(&n, v);
                        let placed = self.in_position(inner);
                        assign(&n, placed)
                    }
                    0 => assign(&n, bin("+", assign(&n, num(1)), num(1))),
                    1 => assign(&n, E::List(vec![assign(&n, num(1)), id(&n)])),
                    2 => assign(&n, cond(E::Bool(true), assign(&n, num(3)), num(4))),
                    _ => assign(&n, call(lam(&["x"], id("x")), vec![assign(&n, st("v"))])),
                };
                self.bound.entry(n).or_insert(Ty::Num);
                (Stmt::Expr(e), "self-nested")
            }
            17 => {
                // a do-block that gives a bound value (often a function) a local name and binds
                // other locals - named like the names function bodies read - next to it
                let target = if self.rng.chance(2, 3) { self.bound_of(&[Ty::Fun]) } else { None }.or_else(|| self.bound_any());
                match target {
                    Some(tg) => {
                        let is_fun = self.bound.get(&tg) == Some(&Ty::Fun);
                        let mut stmts = vec![assign("t2", id(&tg))];
                        let mut pool = vec!["k", "n", "m", "y", "x", "t"];
                        for _ in 0..self.rng.range(1, 4) {
                            let i = self.rng.usize_below(pool.len());
                            let l = pool.remove(i);
                            let v = self.small_num();
                            if self.rng.chance(1, 2) { stmts.push(assign(l, v)) } else { stmts.insert(0, assign(l, v)) }
                        }
                        let ret = match (is_fun, self.rng.below(3)) {
                            (true, 0) | (true, 1) => call(id("t2"), vec![self.small_num()]),
                            (true, _) => E::List(vec![call(id("t2"), vec![num(1)]), id("t2")]),
                            (false, _) => E::List(vec![id("t2"), id(&tg)]),
                        };
                        let blk = doblk(stmts, ret);
                        if self.rng.chance(1, 2) {
                            let n = self.free_name().unwrap_or_else(|| self.any_name());
                            (Stmt::Expr(assign(&n, blk)), "do-alias-locals-rhs")
                        } else {
                            (Stmt::Expr(blk), "do-alias-locals")
                        }
                    }
                    None => {
                        let n = self.free_name().unwrap_or_else(|| self.any_name());
                        let l = self.lambda(Some(&n));
                        self.bound.entry(n.clone()).or_insert(Ty::Fun);
                        (Stmt::Expr(assign(&n, l)), "bind-lambda")
                    }
                }
            }
            16 => {
                // a new binding derived from a bound value: the result may share inner cells
                let n = self.free_name().unwrap_or_else(|| self.any_name());
                let (e, ty) = match self.bound_of(&[Ty::List]) {
                    Some(l) => {
                        let t = self.alias_path(id(&l));
                        match self.rng.below(9) {
                            0 => (call(id("slice"), vec![t, num(0), num(2)]), Ty::List),
                            1 => (call(id("flatten"), vec![E::List(vec![t, id(&l)])]), Ty::List),
                            2 => (call(id("zip"), vec![t, id(&l)]), Ty::List),
                            3 => (call(id("chunk"), vec![t, num(2)]), Ty::List),
                            4 => (E::List(vec![t, id(&l)]), Ty::List),
                            5 => (call(id("concat"), vec![t, E::List(vec![])]), Ty::List),
                            6 => (E::Rec(vec![RK::Static("k".into(), num(1)), RK::Static("xs".into(), t)]), Ty::Rec),
                            7 => (call(id("tail"), vec![t]), Ty::List),
                            _ => (t, Ty::List),
                        }
                    }
                    None => match self.bound_of(&[Ty::Rec]) {
                        Some(r) => {
                            let t = self.alias_path(id(&r));
                            match self.rng.below(5) {
                                0 => (E::Rec(vec![RK::Spread(t)]), Ty::Rec),
                                1 => (E::Rec(vec![RK::Spread(t), RK::Static("k".into(), num(2))]), Ty::Rec),
                                2 => (call(id("values"), vec![t]), Ty::List),
                                3 => (call(id("entries"), vec![t]), Ty::List),
                                _ => (t, Ty::Rec),
                            }
                        }
                        None => match self.bound_of(&[Ty::Str]) {
                            Some(sv) => (bin("+", id(&sv), st("")), Ty::Str),
                            None => (st("seed string"), Ty::Str),
                        },
                    },
                };
                self.bound.entry(n.clone()).or_insert(ty);
                (Stmt::Expr(assign(&n, e)), "derive")
            }
            _ => {
                let n = self.free_name().unwrap_or_else(|| self.any_name());
                let loc = self.any_name();
                let e = doblk(vec![assign(&loc, num(41))], lam(&["x"], bin("+", id("x"), id(&loc))));
                self.bound.entry(n.clone()).or_insert(Ty::Fun);
                (Stmt::Expr(assign(&n, e)), "closure-from-do")
            }
        }
    }
}

pub fn gen_clock(rng: &mut Rng) -> ClockScript {
    if rng.chance(1, 2) {
        return ClockScript::canonical();
    }
    let mut c = ClockScript::canonical();
    c.realtime_base = rng.range(0, 4_000_000_000) * 1_000_000_000;
    c.monotonic_base = rng.range(0, 1_000_000) * 1_000_000;
    c.step = rng.range(1, 5_000_000);
    c.jitter = rng.range(0, 1000);
    if rng.chance(1, 2) {
        c.realtime_jumps.push((rng.below(200), rng.range(-86_400, 86_400) * 1_000_000_000));
    }
    if rng.chance(1, 3) {
        c.monotonic_jumps.push((rng.below(200), rng.range(0, 7_200) * 1_000_000_000));
    }
    c
}

pub fn gen_scenario(rng: &mut Rng) -> Scenario {
    // longer sessions in the thorough tier
    let maxn = if crate::common::tier() == "thorough" { 18 } else { 10 };
    let n = rng.range(2, maxn) as usize;
    let mut g = Gen { rng, bound: BTreeMap::new() };
    let mut stmts = vec![];
    // bias: about half the sessions start by binding a function, so aliasing/handles matter
    if g.rng.chance(1, 2) {
        let name = if g.rng.chance(1, 2) { "f" } else { "g" };
        let l = g.lambda(Some(name));
        g.bound.insert(name.to_string(), Ty::Fun);
        stmts.push(SStmt { stmt: Stmt::Expr(assign(name, l)), kind: "bind-lambda".into() });
    }
    // some sessions have many bindings: one statement (a list of nested assignments) binds
    // 17..260 names w0.. to numbers, strings, lists and a few functions; later statements read
    // some of them. Stability is checked for every root key after every statement.
    if g.rng.chance(1, 12) {
        let count = *g.rng.pick(&[17usize, 33, 65, 130, 260]);
        // names: w0, w1 ... or families that share a long prefix, bound in shuffled order
        let mut wnames: Vec<String> = match g.rng.below(3) {
            0 => (0..count).map(|i| format!("w{}", i)).collect(),
            1 => (0..count).map(|i| format!("{}{}", ["interest_", "acct_balance_", "w"][i % 3], i)).collect(),
            _ => (0..count).map(|i| format!("quarterly_total_{}{}", (b'a' + (i % 26) as u8) as char, i / 26)).collect(),
        };
        if g.rng.chance(2, 3) {
            for i in (1..wnames.len()).rev() {
                let j = g.rng.usize_below(i + 1);
                wnames.swap(i, j);
            }
        }
        let mut items = vec![];
        for i in 0..count {
            let v = match g.rng.below(6) {
                0 => st(&format!("s{}", i)),
                1 => E::List(vec![num(i as i64), num(1)]),
                2 if i > 0 => lam(&["x"], bin("+", id("x"), id(&wnames[g.rng.usize_below(i)]))),
                3 => E::Rec(vec![RK::Static("k".into(), num(i as i64))]),
                _ => num(i as i64 * 3 + 1),
            };
            items.push(assign(&wnames[i], v));
        }
        // one statement binding them all, or one statement each (the first 40)
        if g.rng.chance(1, 2) {
            stmts.push(SStmt { stmt: Stmt::Expr(E::List(items)), kind: "bind-many".into() });
        } else {
            let rest = items.split_off(items.len().min(20));
            for it in items {
                stmts.push(SStmt { stmt: Stmt::Expr(it), kind: "bind-data".into() });
            }
            if !rest.is_empty() {
                stmts.push(SStmt { stmt: Stmt::Expr(E::List(rest)), kind: "bind-many".into() });
            }
        }
        let probe: Vec<E> = [0, 1, 15, 16, 31, 32, 63, 64, 127, 128, count - 1].iter().filter(|i| **i < count).map(|i| id(&wnames[*i])).collect();
        stmts.push(SStmt { stmt: Stmt::Expr(E::List(probe)), kind: "observe".into() });
        // a second batch after the first (growth past a threshold while names already exist)
        if g.rng.chance(1, 2) {
            let more: Vec<E> = (0..g.rng.range(1, 40) as usize).map(|i| assign(&format!("v{}", i), num(i as i64))).collect();
            stmts.push(SStmt { stmt: Stmt::Expr(E::List(more)), kind: "bind-many".into() });
        }
        // rebinding any of them must still fail
        for _ in 0..3 {
            let victim = wnames[g.rng.usize_below(count)].clone();
            let e = if g.rng.chance(1, 2) { assign(&victim, num(-1)) } else { E::List(vec![assign(&victim, num(-1))]) };
            stmts.push(SStmt { stmt: Stmt::Expr(e), kind: "rebind".into() });
        }
    }
    // some contain a deep chain of scopes: ten nested do-blocks reading the outermost local at
    // the bottom, or a late-bound read of a caller's parameter from ten calls further down
    if g.rng.chance(1, 8) {
        if g.rng.chance(1, 2) {
            let mut e = bin("+", id("deep"), id("t"));
            for lvl in (0..10).rev() {
                let local = if lvl == 0 { "deep".to_string() } else { format!("l{}", lvl) };
                let val = if lvl == 9 { assign("t", num(1)) } else { assign(&local, num(40 + lvl as i64)) };
                e = doblk(vec![val], e);
            }
            // outermost block binds `deep`; level 9 binds `t`
            stmts.push(SStmt { stmt: Stmt::Expr(e), kind: "deep-do-chain".into() });
        } else {
            stmts.push(SStmt { stmt: Stmt::Expr(assign("g", lam(&["k"], cond(bin(".<=", id("k"), num(0)), id("n"), call(id("g"), vec![bin("-", id("k"), num(1))]))))), kind: "bind-lambda".into() });
            g.bound.insert("g".to_string(), Ty::Fun);
            stmts.push(SStmt { stmt: Stmt::Expr(assign("f", lam(&["n"], call(id("g"), vec![num(10)])))), kind: "bind-lambda".into() });
            g.bound.insert("f".to_string(), Ty::Fun);
            stmts.push(SStmt { stmt: Stmt::Expr(call(id("f"), vec![num(7)])), kind: "call-bound".into() });
        }
    }
    // some start with a closure factory and a function made by it (what that function captured
    // must not depend on later top-level bindings of the same names)
    if g.rng.chance(1, 6) {
        let pn = *g.rng.pick(&["a", "b", "c", "d"]);
        let inner = match g.rng.below(3) {
            0 => doblk(vec![assign(pn, bin("+", id(pn), id("m")))], id(pn)),
            1 => doblk(vec![assign("y", bin("*", id(pn), id("m"))), assign(pn, num(0))], E::List(vec![id("y"), id(pn)])),
            _ => bin("+", id(pn), id("m")),
        };
        let fname = if g.bound.contains_key("f") { "g" } else { "f" };
        g.bound.insert(fname.to_string(), Ty::Fun);
        stmts.push(SStmt { stmt: Stmt::Expr(assign(fname, E::Lam(vec![Arg::Req(pn.to_string())], Box::new(lam(&["m"], inner))))), kind: "bind-lambda".into() });
        g.bound.insert("fs".to_string(), Ty::Fun);
        stmts.push(SStmt { stmt: Stmt::Expr(assign("fs", call(id(fname), vec![num(10)]))), kind: "bind-call-result".into() });
    }
    // ... and about a third start with a long list and a record, the operands of in-place hazards
    if g.rng.chance(1, 3) {
        // now and then a list longer than any plausible small-size threshold (16, 64, 256)
        let big = g.rng.chance(1, 5);
        let e = if big {
            call(id("range"), vec![num(*g.rng.pick(&[17i64, 65, 257, 300]))])
        } else {
            E::List((0..g.rng.range(5, 9)).map(|_| g.small_num()).collect())
        };
        g.bound.insert("a".to_string(), Ty::List);
        stmts.push(SStmt { stmt: Stmt::Expr(assign("a", e)), kind: "bind-data".into() });
        if big {
            // the long list goes through a callback-taking built-in whose callback fails part-way
            // or reads the list being processed
            let f = *g.rng.pick(&["map", "filter", "every", "some"]);
            let cb = match g.rng.below(3) {
                0 => lam(&["x"], cond(bin(".<", id("x"), num(3)), id("x"), bin("+", id("x"), st("!")))),
                1 => lam(&["x"], bin(".>", call(id("len"), vec![id("a")]), id("x"))),
                _ => lam(&["x"], bin("+", id("x"), num(1))),
            };
            stmts.push(SStmt { stmt: Stmt::Expr(call(id(f), vec![id("a"), cb])), kind: "builtin-on-bound".into() });
            stmts.push(SStmt { stmt: Stmt::Expr(call(id("len"), vec![id("a")])), kind: "observe".into() });
        }
        if g.rng.chance(1, 2) {
            g.bound.insert("s".to_string(), Ty::Str);
            stmts.push(SStmt { stmt: Stmt::Expr(assign("s", st("seed"))), kind: "bind-data".into() });
        }
        if g.rng.chance(1, 2) {
            g.bound.insert("r".to_string(), Ty::Rec);
            stmts.push(SStmt { stmt: Stmt::Expr(assign("r", E::Rec(vec![RK::Static("k".into(), num(1)), RK::Static("m".into(), st("s")), RK::Static("x".into(), E::List(vec![num(1), num(2)]))]))), kind: "bind-data".into() });
        }
    }
    // whatever the prefixes above took, at least three generated statements follow them
    let n = n.max(stmts.len() + 3);
    while stmts.len() < n {
        let (s, k) = g.stmt();
        stmts.push(SStmt { stmt: s, kind: k.to_string() });
    }
    let hash_seed = if rng.chance(1, 4) { 0 } else { rng.next_u64() };
    let clock = gen_clock(rng);
    let file_style = rng.chance(1, 3);
    let inputs_json = match rng.below(4) {
        0 | 1 => "{}".to_string(),
        2 => "{\"k\": 3, \"xs\": [1, 2]}".to_string(),
        _ => "{\"k\": 3, \"fn\": {\"__blots_function\": \"(x) => x + 1\"}}".to_string(),
    };
    Scenario { hash_seed, clock, file_style, probe_every: true, inputs_json, stmts, faults: vec![] }
}

// ---------------------------------------------------------------------------------------
// Model (oracle) — observational
// ---------------------------------------------------------------------------------------

#[derive(Clone, Debug, Default)]
pub struct Obs {
    pub keys: BTreeMap<String, Option<String>>,
    /// (root name, probe source) -> result
    pub probes: BTreeMap<(String, String), (Status, Option<String>)>,
    /// closed functions whose result depends on the scope they are called from
    pub shadow_mismatch: Vec<String>,
    /// reads of a bound name that do not give its value
    pub context_mismatch: Vec<String>,
    /// scope sentinels that do not give their known answer
    pub sentinel_mismatch: Vec<String>,
}

#[derive(Clone, Debug, Serialize, Deserialize)]
pub struct Viol {
    pub clause: String,
    pub stmt: usize,
    pub detail: String,
}

pub struct Model {
    reserved: BTreeSet<String>,
    builtins: BTreeSet<String>,
    /// name -> (canonical value, probe results) at first observation; never updated.
    bound: BTreeMap<String, (Option<String>, BTreeMap<(String, String), (Status, Option<String>)>)>,
    /// names whose value is known to contain only transitively closed functions.
    tc: BTreeSet<String>,
    /// subset of `tc`: no function in the value reads even its own name late-bound, so its
    /// result cannot depend on the scope it is called from
    tcs: BTreeSet<String>,
    last: Obs,
    inputs0: Option<String>,
    pub violation: Option<Viol>,
    pub stats: Counters,
    probe_every: bool,
    hasher: u64,
    /// after each statement: name -> JSON of the bound value (data only), for the CLI cross-check
    pub snapshots: Vec<BTreeMap<String, serde_json::Value>>,
}

fn probe_sources(root: &str, path: &str, args: &[blots_core::values::LambdaArg]) -> Vec<String> {
    use blots_core::values::LambdaArg;
    let mut tuples: Vec<String> = vec![];
    for base in [1i64, 0] {
        let mut a: Vec<String> = vec![];
        for (i, arg) in args.iter().enumerate() {
            match arg {
                LambdaArg::Required(_) => a.push((base + i as i64).to_string()),
                LambdaArg::Optional(_) => {
                    if base == 1 {
                        a.push((base + i as i64).to_string())
                    }
                }
                LambdaArg::Rest(_) => {
                    if base == 1 {
                        a.push("7".into());
                        a.push("8".into());
                    }
                }
            }
        }
        let t = a.join(", ");
        if !tuples.contains(&t) {
            tuples.push(t);
        }
    }
    let shadows: Vec<&&str> = NAMES.iter().filter(|n| **n != root).collect();
    let mut out = vec![];
    for t in tuples {
        out.push(format!("{}({})", path, t));
        let sh: Vec<String> = shadows.iter().map(|n| format!("{} = 0", n)).collect();
        out.push(format!("do {{ {}; return {}({}) }}", sh.join("; "), path, t));
        let ps: Vec<String> = shadows.iter().map(|n| n.to_string()).collect();
        let zs: Vec<&str> = shadows.iter().map(|_| "0").collect();
        out.push(format!("(({}) => {}({}))({})", ps.join(", "), path, t, zs.join(", ")));
    }
    out
}

/// Fixed programs with known answers about the freshness of call and block scopes: every
/// invocation of a callback, every call and every do-block starts from a scope of its own, so a
/// name bound in one invocation is neither visible to nor in the way of the next. Evaluated in
/// every session state the engine reaches (after every statement, after every injected failure).
/// (program, literal it must equal) - `None` = must fail.
const SCOPE_SENTINELS: &[(&str, Option<&str>)] = &[
    ("map([1, 2, 3], (x) => (zt = x) + 1)", Some("[2, 3, 4]")),
    ("map([1, 2], (x, i) => (zt = i) + x)", Some("[1, 3]")),
    ("filter([1, 2, 3], (x) => (zt = x) > 1)", Some("[2, 3]")),
    ("reduce([1, 2, 3], (acc, x) => (zt = acc + x), 0)", Some("6")),
    ("every([1, 2], (x) => (zt = x) > 0)", Some("true")),
    ("some([1, 2], (x) => (zt = x) > 5)", Some("false")),
    ("[1, 2, 3] via ((x) => (zt = x) * 2)", Some("[2, 4, 6]")),
    ("[1, 2, 3] where ((x) => (zt = x) > 2)", Some("[3]")),
    ("sort_by([3, 1, 2], (x) => (zt = x))", Some("[1, 2, 3]")),
    ("keys(group_by([1, 2, 3], (x) => to_string((zt = x) % 2)))", Some("[\"1\", \"0\"]")),
    ("count_by([\"a\", \"b\", \"a\"], (x) => (zt = x))", Some("{a: 2, b: 1}")),
    ("5 into ((x) => (zt = x) + 1)", Some("6")),
    ("do { zf = (x) => (zt = x) + 1; return [zf(1), zf(2)] }", Some("[2, 3]")),
    ("((zt) => zt + 1)(1) + ((zt) => zt + 2)(1)", Some("5")),
    ("do { zt = 1; return zt } + do { zt = 2; return zt }", Some("3")),
    ("((...zr) => (zt = len(zr)))(1, 2) + ((...zr) => (zt = len(zr)))(1)", Some("3")),
    ("[((zo?) => zo)(4), ((zo?) => zo)()]", Some("[4, null]")),
    ("map([1, 2, 3], (x) => if x > 1 then zt else (zt = x))", None),
    ("[1, 2, 3] via ((x) => if x > 1 then zt else (zt = x))", None),
    ("[((zt) => 1)(1), zt]", None),
    ("do { zt = 1; return 1 } + zt", None),
    ("[((zo?) => 1)(4), zo]", None),
    // the branch of a conditional that is not taken has no effect on any scope
    ("do { zt = 5; return do { zq = if true then 0 else (zt = 1); return zt } }", Some("5")),
    ("((zt) => do { zq = if false then (zt = 1) else 0; return zt })(5)", Some("5")),
    ("[if true then 0 else (zt = 1), zt]", None),
    ("[if false then (zt = 1) else 0, zt]", None),
];

/// Ways of reading the bound name `n` that must all give its value.
fn context_reads(n: &str) -> Vec<String> {
    vec![
        format!("((zz) => {})(0)", n),
        format!("do {{ zz = 0; return {} }}", n),
        format!("([0] via ((zz) => {}))[0]", n),
        format!("if 1 .< 2 then {} else 0", n),
        format!("{{{}: {}}}.{}", n, n, n),
        format!("{{{}}}.{}", n, n),
        format!("{{{}: (zz) => {}}}.{}(0)", n, n, n),
        format!("{{zk: {{{}: (zz) => {}}}}}.zk.{}(0)", n, n, n),
        format!("[(zz) => {}][0](0)", n),
        format!("((zz?) => {})()", n),
        format!("((...zz) => {})()", n),
    ]
}

impl Model {
    pub fn new(sess: &Session, probe_every: bool) -> Model {
        let builtins = builtin_names();
        let mut reserved: BTreeSet<String> = KEYWORDS.iter().map(|s| s.to_string()).collect();
        reserved.extend(builtins.iter().cloned());
        reserved.insert("constants".into());
        reserved.insert("inputs".into());
        let mut m = Model {
            reserved,
            builtins,
            bound: BTreeMap::new(),
            tc: BTreeSet::new(),
            tcs: BTreeSet::new(),
            last: Obs::default(),
            inputs0: None,
            violation: None,
            stats: Counters::default(),
            probe_every,
            hasher: 0,
            snapshots: vec![],
        };
        m.tc.insert("inputs".into());
        let o = m.observe(sess, false, false);
        m.inputs0 = o.keys.get("inputs").cloned().flatten();
        m.last = o;
        m
    }

    pub fn history_hash(&self) -> u64 {
        self.hasher
    }

    fn observe(&mut self, sess: &Session, with_probes: bool, heavy: bool) -> Obs {
        let mut o = Obs::default();
        if sess.dead.get() {
            return self.last.clone();
        }
        let root = sess.root();
        for (k, v) in &root {
            o.keys.insert(k.clone(), sess.canon_of(v));
        }
        // a name that is not a key of the root environment must not evaluate at top level
        // (do-block locals, parameters and captured names of finished calls)
        for n in NAMES.iter().chain(LOCAL_NAMES.iter()) {
            if with_probes && !root.contains_key(*n) {
                let r = sess.probe(n);
                self.stats.inc("probes");
                o.probes.insert(("<unbound>".to_string(), n.to_string()), (if r.0 == Status::Ok { Status::Ok } else { Status::Err }, None));
            }
        }
        if heavy {
            for (src, want) in SCOPE_SENTINELS {
                let got = sess.probe(src);
                self.stats.inc("probes");
                self.stats.inc("scope_sentinels");
                if matches!(got.0, Status::Panic | Status::NotRun) {
                    continue;
                }
                match want {
                    Some(lit) => {
                        let w = sess.probe(lit);
                        if w.0 == Status::Ok && got != w {
                            o.sentinel_mismatch.push(format!("`{}` gives {:?}, not {}", src, got, lit));
                        }
                    }
                    None => {
                        if got.0 == Status::Ok {
                            o.sentinel_mismatch.push(format!("`{}` succeeds with {:?}: a name bound in one call or block is visible outside it", src, got.1));
                        }
                    }
                }
            }
        }
        // the value observed through a bound name is the same in whatever context it is read:
        // inside a function, a do-block, a callback, a conditional, a record written with the
        // name as its key, a function stored under that key
        if heavy {
            // every root key evaluates, as a name, to its value
            for (k, _) in &root {
                if k == "inputs" || NAMES.contains(&k.as_str()) || !crate::hast::is_ident(k) {
                    continue;
                }
                if let Some(Some(plain)) = o.keys.get(k) {
                    if plain == UNREADABLE {
                        continue;
                    }
                    let r = sess.probe(k);
                    self.stats.inc("probes");
                    if matches!(r.0, Status::Panic | Status::NotRun) {
                        continue;
                    }
                    if r.0 != Status::Ok || r.1.as_deref() != Some(plain.as_str()) {
                        o.context_mismatch.push(format!("`{}` gives {:?} but the binding is {:?}", k, r, plain));
                    }
                }
            }
            for (k, _) in &root {
                if k == "inputs" || !NAMES.contains(&k.as_str()) {
                    continue;
                }
                let plain = match o.keys.get(k) {
                    Some(Some(c)) if c != UNREADABLE => c.clone(),
                    _ => continue,
                };
                // ... and where the name is shadowed (a do-block local, a parameter), the local
                // value is what is read there
                for (src, lit) in [
                    (format!("do {{ {} = 0; return {} }}", k, k), "0"),
                    (format!("(({}) => {})(0)", k, k), "0"),
                    (format!("(({}?) => {})()", k, k), "null"),
                    (format!("do {{ {} = 0; return ((zz) => {})(1) }}", k, k), "0"),
                    (format!("(({}) => do {{ zz = {}; return zz }})(0)", k, k), "0"),
                    (format!("[1] via (({}) => {})", k, k), "[1]"),
                ] {
                    let r = sess.probe(&src);
                    let w = sess.probe(lit);
                    self.stats.inc("probes");
                    self.stats.inc("context_reads");
                    if matches!(r.0, Status::Panic | Status::NotRun) || w.0 != Status::Ok {
                        continue;
                    }
                    if r != w {
                        o.context_mismatch.push(format!("`{}` gives {:?}, not {}: the local {} is not what is read where it shadows the binding", src, r, lit, k));
                    }
                }
                for src in context_reads(k) {
                    let r = sess.probe(&src);
                    self.stats.inc("probes");
                    self.stats.inc("context_reads");
                    if r.0 == Status::Panic || r.0 == Status::NotRun {
                        continue;
                    }
                    if r.0 != Status::Ok || r.1.as_deref() != Some(plain.as_str()) {
                        o.context_mismatch.push(format!("`{}` gives {:?} but {} is {:?}", src, r, k, plain));
                    }
                }
            }
        }
        for (k, v) in &root {
            if k == "inputs" || !self.tc.contains(k) {
                continue;
            }
            let first_time = !self.bound.contains_key(k);
            if !(with_probes || first_time) {
                continue;
            }
            if let Some(sv) = sess.serializable_of(v) {
                let mut paths = vec![];
                function_paths(&sv, k, 0, &mut paths);
                for (p, args) in paths {
                    let srcs = probe_sources(k, &p, &args);
                    let mut rs = vec![];
                    for src in &srcs {
                        let r = sess.probe(src);
                        self.stats.inc("probes");
                        o.probes.insert((k.clone(), src.clone()), r.clone());
                        rs.push(r);
                    }
                    // a closed function called where every other name is shadowed (by do-block
                    // locals, by parameters) gives what it gives at top level
                    if self.tcs.contains(k) {
                        for (ss, tr) in srcs.chunks(3).zip(rs.chunks(3)) {
                            if tr[0].0 != Status::Ok {
                                continue;
                            }
                            for j in 1..tr.len() {
                                self.stats.inc("shadow_context_comparisons");
                                if tr[j] != tr[0] {
                                    o.shadow_mismatch.push(format!("`{}` gives {:?} but `{}` gives {:?}", ss[0], tr[0], ss[j], tr[j]));
                                }
                            }
                        }
                    }
                }
            }
        }
        o
    }

    fn is_tc_assignment(&self, name: &str, rhs: &E) -> bool {
        self.is_closed_assignment(name, rhs, false)
    }

    fn is_closed_assignment(&self, name: &str, rhs: &E, strict: bool) -> bool {
        if contains_raw(rhs) {
            return false;
        }
        let (free, shorthand_in_lambda) = free_names(rhs);
        if shorthand_in_lambda || lambda_has_checked_assign(rhs, false, false) {
            return false;
        }
        for n in free {
            let set = if strict { &self.tcs } else { &self.tc };
            if set.contains(&n) || self.builtins.contains(&n) || n == "constants" || n == "inf" || n == "infinity" {
                continue;
            }
            if !strict && n == name && matches!(rhs, E::Lam(..)) {
                continue;
            }
            return false;
        }
        true
    }

    /// Collect every assignment `name = rhs` in the statement's own frame.
    fn frame_assignments<'e>(e: &'e E, out: &mut Vec<(&'e str, &'e E)>) {
        if let E::Assign(n, v) = e {
            out.push((n.as_str(), &**v));
        }
        for (fr, c) in children(e) {
            if fr != Frame::Inner {
                Self::frame_assignments(c, out);
            }
        }
    }

    fn fail(&mut self, clause: &str, stmt: usize, detail: String) {
        // long canonical values make unreadable reports: keep the head and the tail
        let detail = if detail.chars().count() > 600 {
            let head: String = detail.chars().take(400).collect();
            let tail: String = detail.chars().rev().take(150).collect::<Vec<_>>().into_iter().rev().collect();
            format!("{} ...[{} characters]... {}", head, detail.chars().count(), tail)
        } else {
            detail
        };
        if self.violation.is_none() {
            self.violation = Some(Viol { clause: clause.to_string(), stmt, detail });
        }
    }

    /// Called after statement `gi` has run (or been refused by the parser).
    pub fn step(&mut self, sess: &Session, gi: usize, s: &SStmt, o: &Outcome, force_probes: bool, is_last: bool) {
        let heavy = self.probe_every || is_last;
        self.hasher = mix(self.hasher, fnv64(format!("{}|{}|{:?}|{}", gi, o.status.short(), o.canon, o.steps).as_bytes()));
        if o.status == Status::Panic || o.status == Status::NotRun {
            self.stats.inc("sut_panics");
            return;
        }
        let before = self.last.clone();
        let after = self.observe(sess, self.probe_every || force_probes, heavy);
        for (k, v) in &after.keys {
            self.hasher = mix(self.hasher, fnv64(format!("{}={:?}", k, v).as_bytes()));
        }
        for (k, v) in &after.probes {
            self.hasher = mix(self.hasher, fnv64(format!("{}->{:?}", k.1, v).as_bytes()));
        }
        if self.violation.is_some() {
            self.last = after;
            return;
        }
        let fi = stmt_frame(&s.stmt);
        let analysable = stmt_expr(&s.stmt).map(|e| !contains_raw(&e)).unwrap_or(true);

        // 0. every binding can be read back
        for (k, c) in &after.keys {
            if c.as_deref() == Some(UNREADABLE) {
                self.fail("binding-unreadable", gi, format!("{} is bound but reading its value back from the heap panics (released or foreign cell)", k));
            }
        }
        // 1. stability of everything observed bound so far
        let bound_names: Vec<String> = self.bound.keys().cloned().collect();
        for n in bound_names {
            let (c0, p0) = self.bound[&n].clone();
            match after.keys.get(&n) {
                None => {
                    self.fail("stability-value", gi, format!("{} was bound and is gone", n));
                }
                Some(c1) => {
                    if *c1 != c0 {
                        self.fail("stability-value", gi, format!("{} changed from {:?} to {:?}", n, c0, c1));
                    }
                }
            }
            for (src, r1) in &after.probes {
                if let Some(r0) = p0.get(src) {
                    if r0 != r1 {
                        self.fail("stability-probe", gi, format!("probe `{}` (value of {}) changed from {:?} to {:?}", src.1, src.0, r0, r1));
                    }
                }
            }
        }
        // 0e. every call and block starts from a fresh scope
        if let Some(m) = after.sentinel_mismatch.first() {
            self.fail("call-scope-not-fresh", gi, m.clone());
        }
        // 0d. a bound name reads the same in every context
        if let Some(m) = after.context_mismatch.first() {
            self.fail("value-differs-by-context", gi, m.clone());
        }
        // 0c. closed functions do not see the caller's names
        if let Some(m) = after.shadow_mismatch.first() {
            self.fail("caller-scope-seen-by-closed-function", gi, m.clone());
        }
        // 0b. a name that is not a root key does not evaluate
        for ((root, name), r) in &after.probes {
            if root == "<unbound>" && r.0 == Status::Ok {
                self.fail("leak-visible-by-lookup", gi, format!("{} is not a key of the root environment but evaluates at top level", name));
            }
        }
        // 3. reserved names never bound; inputs unchanged
        for k in after.keys.keys() {
            if k != "inputs" && self.reserved.contains(k) {
                self.fail("reserved-bound", gi, format!("reserved name {} is a root key", k));
            }
        }
        if after.keys.get("inputs").cloned().flatten() != self.inputs0 {
            self.fail("inputs-changed", gi, "the inputs record changed or disappeared".into());
        }
        // 4. frame
        for k in after.keys.keys() {
            if !before.keys.contains_key(k) {
                if analysable && !fi.possible.contains(k) {
                    self.fail("frame-leak", gi, format!("{} became visible but is not assigned in this statement's own frame", k));
                }
                if o.status == Status::ParseErr {
                    self.fail("frame-leak", gi, format!("{} became visible although the statement did not parse", k));
                }
            }
        }
        // 2. no rebinding
        if analysable && o.status == Status::Ok {
            let mut seen = BTreeSet::new();
            for n in &fi.definite {
                if before.keys.contains_key(n) {
                    self.fail("rebind-accepted", gi, format!("assignment to already-bound {} succeeded", n));
                }
                if self.reserved.contains(n) {
                    self.fail("reserved-bound", gi, format!("assignment to reserved name {} succeeded", n));
                }
                if !seen.insert(n.clone()) {
                    self.fail("rebound-within-statement", gi, format!("{} is assigned twice in one successful statement", n));
                }
            }
        }
        // Raw reserved assignments: `kw = e` (possibly nested in a list) must fail
        if s.kind.starts_with("bind-reserved") || s.kind == "output-reserved" {
            if o.status == Status::Ok {
                self.fail("reserved-bound", gi, "assignment to a reserved name succeeded".into());
            }
        }
        // 5. commit on success only
        let top = match &s.stmt {
            Stmt::Expr(E::Assign(n, e)) => Some((n.clone(), (**e).clone())),
            Stmt::Output(n, Some(e)) => Some((n.clone(), e.clone())),
            _ => None,
        };
        if let Some((n, e)) = top {
            if analysable && !before.keys.contains_key(&n) && !self.reserved.contains(&n) {
                if o.status.failed() {
                    if !contains_assign_to(&e, &n) && after.keys.contains_key(&n) {
                        self.fail("commit-on-failure", gi, format!("{} = .. failed but {} is bound afterwards", n, n));
                    }
                } else {
                    match after.keys.get(&n) {
                        None => self.fail("commit-value", gi, format!("{} = .. succeeded but {} is not bound", n, n)),
                        Some(c) => {
                            if *c != o.canon {
                                self.fail("commit-value", gi, format!("{} holds {:?} but the statement's value was {:?}", n, c, o.canon));
                            }
                        }
                    }
                }
            }
        }
        // evidence probes
        if o.fault_fired.is_some() && o.status.failed() && after.keys.len() > before.keys.len() {
            self.stats.inc("rare:fault_after_nested_assignment_committed");
        }
        if o.fault_fired.is_some() && o.status == Status::Ok {
            self.stats.inc("rare:fault_fired_but_statement_succeeded");
        }
        // update model: newly visible names
        let mut assigns = vec![];
        let se = stmt_expr(&s.stmt);
        if let Some(e) = &se {
            Self::frame_assignments(e, &mut assigns);
        }
        let mut new_tc = vec![];
        for k in after.keys.keys() {
            if before.keys.contains_key(k) {
                continue;
            }
            let mine: Vec<&(&str, &E)> = assigns.iter().filter(|(n, _)| *n == k).collect();
            if analysable && !mine.is_empty() && mine.iter().all(|(n, rhs)| self.is_tc_assignment(n, rhs)) {
                new_tc.push(k.clone());
            }
        }
        let had_new_tc = !new_tc.is_empty();
        for k in new_tc {
            let mine: Vec<&(&str, &E)> = assigns.iter().filter(|(n, _)| *n == k).collect();
            if mine.iter().all(|(n, rhs)| self.is_closed_assignment(n, rhs, true)) {
                self.tcs.insert(k.clone());
            }
            self.tc.insert(k);
        }
        // first observation (with probes for names that just became tc)
        let after2 = if had_new_tc { self.observe(sess, self.probe_every || force_probes, heavy) } else { after };
        if let Some(m) = after2.shadow_mismatch.first() {
            self.fail("caller-scope-seen-by-closed-function", gi, m.clone());
        }
        for (k, c) in &after2.keys {
            if !self.bound.contains_key(k) && k != "inputs" {
                let ps: BTreeMap<(String, String), (Status, Option<String>)> =
                    after2.probes.iter().filter(|((root, _), _)| root == k).map(|(a, b)| (a.clone(), b.clone())).collect();
                self.bound.insert(k.clone(), (c.clone(), ps));
            }
        }
        if self.probe_every {
            let mut snap = BTreeMap::new();
            if !sess.dead.get() {
                for (k, v) in sess.root() {
                    if k == "inputs" {
                        continue;
                    }
                    if let Some(sv) = sess.serializable_of(&v) {
                        let j = sv.to_json();
                        if !j.to_string().contains("__blots_function") {
                            snap.insert(k, j);
                        }
                    }
                }
            }
            while self.snapshots.len() < gi {
                self.snapshots.push(BTreeMap::new());
            }
            if self.snapshots.len() == gi {
                self.snapshots.push(snap);
            } else {
                self.snapshots[gi] = snap;
            }
        }
        self.last = after2;
    }
}

// ---------------------------------------------------------------------------------------
// Execution
// ---------------------------------------------------------------------------------------

#[derive(Clone, Debug)]
pub struct Exec {
    pub outcomes: Vec<Outcome>,
    pub violation: Option<Viol>,
    pub hash: u64,
    pub stats: Counters,
    pub clock_advance_ns: i64,
    pub snapshots: Vec<BTreeMap<String, serde_json::Value>>,
}

fn cfg_for(sc: &Scenario, i: usize) -> EvalCfg {
    let mut c = EvalCfg::default();
    for f in &sc.faults {
        match f {
            Fault::Step { stmt, step } if *stmt == i => c.inject_at = Some(*step),
            Fault::Depth { stmt, depth0 } if *stmt == i => c.depth0 = *depth0,
            _ => {}
        }
    }
    c
}

pub fn execute(sc: &Scenario) -> Exec {
    let sc2 = sc.clone();
    let (mut ex, seam) = on_sim_thread(sc.hash_seed, sc.clock.clone(), move || {
        let sc = sc2;
        install_hooks();
        let sess = Session::new(Some(&sc.inputs_json));
        let mut model = Model::new(&sess, sc.probe_every);
        let n = sc.stmts.len();
        let faulted: BTreeSet<usize> = sc
            .faults
            .iter()
            .map(|f| match f {
                Fault::Step { stmt, .. } | Fault::Depth { stmt, .. } => *stmt,
            })
            .collect();
        let mut outcomes: Vec<Outcome> = vec![];
        if sc.file_style {
            let src = sc.stmts.iter().map(|s| show_stmt(&s.stmt)).collect::<Vec<_>>().join("\n");
            let model_cell = std::cell::RefCell::new(&mut model);
            let outs = sess.eval_source(&src, &mut |i| cfg_for(&sc, i), &mut |s, i, o| {
                if i < n {
                    let force = faulted.contains(&i) || i + 1 == n;
                    model_cell.borrow_mut().step(s, i, &sc.stmts[i], o, force, i + 1 == n);
                }
            });
            drop(model_cell);
            if outs.len() == 1 && outs[0].status == Status::ParseErr && n != 1 {
                // the whole source was refused: nothing ran; every statement "fails to parse"
                for i in 0..n {
                    model.step(&sess, i, &sc.stmts[i], &outs[0], i + 1 == n, i + 1 == n);
                    outcomes.push(outs[0].clone());
                }
            } else if outs.len() == 1 && outs[0].status == Status::ParseErr {
                model.step(&sess, 0, &sc.stmts[0], &outs[0], true, true);
                outcomes = outs;
            } else {
                if outs.len() != n {
                    panic!("HARNESS: file-style source yielded {} statements, expected {}: {:?}", outs.len(), n, src);
                }
                outcomes = outs;
            }
        } else {
            for i in 0..n {
                let src = show_stmt(&sc.stmts[i].stmt);
                let force = faulted.contains(&i) || i + 1 == n;
                let model_cell = std::cell::RefCell::new(&mut model);
                let outs = sess.eval_source(&src, &mut |_| cfg_for(&sc, i), &mut |s, _j, o| {
                    model_cell.borrow_mut().step(s, i, &sc.stmts[i], o, force, i + 1 == n);
                });
                drop(model_cell);
                if outs.is_empty() {
                    // dead session
                    outcomes.push(Outcome {
                        status: Status::NotRun,
                        canon: None,
                        err: None,
                        steps: 0,
                        call_steps: 0,
                        fault_fired: None,
                        depth_error: false,
                        yields: 0,
                        output_error: false,
                    });
                    continue;
                }
                if outs.len() != 1 {
                    panic!("HARNESS: statement source yielded {} statements: {:?}", outs.len(), src);
                }
                if outs[0].status == Status::ParseErr {
                    model.step(&sess, i, &sc.stmts[i], &outs[0], force, i + 1 == n);
                }
                outcomes.push(outs[0].clone());
            }
        }
        Exec { outcomes, violation: model.violation.clone(), hash: model.history_hash(), stats: model.stats.clone(), clock_advance_ns: 0, snapshots: model.snapshots.clone() }
    });
    // profiling statistics are a process-global vector that grows with every call: drop them
    crate::session::trim_call_stats();
    ex.clock_advance_ns = seam.clock_advance_ns;
    ex.stats.add("clock_reads", seam.clock_reads);
    ex
}

// ---------------------------------------------------------------------------------------
// Second observation point: the real CLI. The successful prefix of a session is written as a
// script that ends by re-declaring every data binding as an output; the emitted object must
// equal what the in-process session observed through those names.
// ---------------------------------------------------------------------------------------

pub fn cli_cross_check(sc: &Scenario, ex: &Exec) -> Option<Viol> {
    let cli = crate::c19::cli_path();
    if !std::path::Path::new(&cli).exists() {
        return None;
    }
    // the prefix ends before the first statement that fails, or whose `output` is refused as
    // not portable (the CLI exits 1 there)
    let prefix = ex.outcomes.iter().position(|o| o.status != Status::Ok || o.output_error).unwrap_or(ex.outcomes.len());
    if prefix == 0 || ex.snapshots.len() < prefix {
        return None;
    }
    // recursion hundreds of calls deep overflows the 8 MiB main stack of the dev-profile binary
    // (C18's subject, and a property of the build profile): not a binding question
    if ex.outcomes[..prefix].iter().any(|o| o.call_steps > 150) {
        return None;
    }
    let snap = &ex.snapshots[prefix - 1];
    if snap.is_empty() {
        return None;
    }
    let mut src: Vec<String> = sc.stmts[..prefix].iter().map(|s| show_stmt(&s.stmt)).collect();
    for k in snap.keys() {
        src.push(format!("output {}", k));
    }
    let script = src.join("\n") + "\n";
    let inv = crate::cli::Invocation {
        argv: vec!["-i".into(), sc.inputs_json.clone(), "prog.blots".into()],
        stdin: crate::cli::StdinKind::DevNull,
        stdout: crate::cli::StdoutKind::Pipe,
        files: vec![("prog.blots".into(), script.clone().into_bytes())],
        dirs: vec![],
        plan: None,
        src_suffix: "prog.blots".into(),
        out_suffix: "out.json".into(),
        aslr_off: false,
        out_path: None,
        extra_env: vec![],
    };
    let rr = crate::cli::run_cli(&cli, &crate::c19::shim_path(), &inv);
    let stmt = prefix - 1;
    if rr.exit != Some(0) {
        return Some(Viol {
            clause: "cli-bindings-differ".into(),
            stmt,
            detail: format!("every statement of the prefix succeeds in-process but the CLI exits {:?}: {}", rr.exit, String::from_utf8_lossy(&rr.stdout).chars().take(300).collect::<String>()),
        });
    }
    let text = String::from_utf8_lossy(&rr.stdout).to_string();
    let last = text.lines().last().unwrap_or("");
    match serde_json::from_str::<serde_json::Value>(last) {
        Ok(serde_json::Value::Object(o)) => {
            for (k, v) in snap {
                match o.get(k) {
                    Some(got) if got == v => {}
                    other => {
                        return Some(Viol { clause: "cli-bindings-differ".into(), stmt, detail: format!("{}: CLI output {:?}, in-process binding {}", k, other, v) });
                    }
                }
            }
            None
        }
        _ => Some(Viol { clause: "cli-bindings-differ".into(), stmt, detail: format!("CLI stdout is not an outputs object: {:?}", text.chars().take(300).collect::<String>()) }),
    }
}

thread_local! {
    /// interactive sessions actually run by this thread (as opposed to skipped)
    static REPL_PERFORMED: std::cell::Cell<u64> = const { std::cell::Cell::new(0) };
}

/// Split what the interactive mode wrote to stdout into one segment per prompt.
fn repl_segments(text: &str) -> Vec<String> {
    let mut segs = vec![];
    let mut rest = text;
    while let Some(r) = rest.strip_prefix("> ") {
        if r.starts_with("> ") {
            segs.push(String::new());
            rest = r;
            continue;
        }
        match r.find("\n> ") {
            Some(i) => {
                segs.push(r[..i + 1].to_string());
                rest = &r[i + 1..];
            }
            None => {
                segs.push(r.to_string());
                rest = "";
            }
        }
    }
    segs
}

/// The property's own setting - "any sequence of statements, including failing ones" - exists
/// for a user only in the interactive mode (a script stops at its first failing statement).
/// The whole session is typed into the real binary's interactive mode through a pseudo-terminal,
/// followed by `output n` for every data binding and end-of-file; every statement must succeed
/// or fail as it does in-process, and the emitted object must equal the in-process bindings.
pub fn repl_cross_check(sc: &Scenario, ex: &Exec) -> Option<Viol> {
    let cli = crate::c19::cli_path();
    if !std::path::Path::new(&cli).exists() || sc.stmts.is_empty() {
        return None;
    }
    // a session evaluated as one source text is parsed as a whole (one unparsable line fails
    // every statement); the interactive mode parses line by line
    if sc.file_style {
        return None;
    }
    if ex.outcomes.len() != sc.stmts.len() || ex.snapshots.len() != sc.stmts.len() {
        return None;
    }
    if ex.outcomes.iter().any(|o| matches!(o.status, Status::Panic | Status::NotRun) || o.call_steps > 150) {
        return None;
    }
    let lines: Vec<String> = sc.stmts.iter().map(|s| show_stmt(&s.stmt)).collect();
    for l in &lines {
        // one terminal line holds 4 KiB; an unbalanced bracket makes the interactive mode wait
        // for a continuation line; `quit` / `exit` / `help` are commands there
        let bal = |a: char, b: char| l.matches(a).count() == l.matches(b).count();
        // ... and the terminal interprets control characters (^C, ^U, DEL ...)
        if l.chars().any(|c| c.is_control()) {
            return None;
        }
        if l.len() > 3900 || l.contains('\n') || !bal('(', ')') || !bal('[', ']') || !bal('{', '}') || matches!(l.trim(), "quit" | "exit" | "help") || l.contains("print(") {
            return None;
        }
    }
    let snap = ex.snapshots.last().unwrap();
    let mut typed = lines.clone();
    for k in snap.keys() {
        typed.push(format!("output {}", k));
    }
    let rr = crate::cli::run_repl(&cli, &["-i".to_string(), sc.inputs_json.clone()], &typed)?;
    REPL_PERFORMED.with(|c| c.set(c.get() + 1));
    let stmt = sc.stmts.len() - 1;
    let text = String::from_utf8_lossy(&rr.stdout).to_string();
    let head = |s: &str| s.chars().take(300).collect::<String>();
    if rr.exit != Some(0) {
        return Some(Viol { clause: "repl-session-differs".into(), stmt, detail: format!("the session runs in-process but the interactive mode exits {:?} (signal {:?}): {}", rr.exit, rr.signal, head(&String::from_utf8_lossy(&rr.stderr))) });
    }
    let segs = repl_segments(&text);
    if segs.len() != typed.len() + 1 {
        return Some(Viol { clause: "repl-session-differs".into(), stmt, detail: format!("{} lines typed but {} prompts answered: {:?}", typed.len(), segs.len(), head(&text)) });
    }
    for (i, o) in ex.outcomes.iter().enumerate() {
        let failed_there = segs[i].contains("[evaluation error]") || segs[i].contains("[parse error]");
        if failed_there != o.status.failed() {
            return Some(Viol {
                clause: "repl-session-differs".into(),
                stmt: i,
                detail: format!("statement {} `{}` {} in-process but the interactive mode answers {:?}", i, head(&lines[i]), if o.status.failed() { "fails" } else { "succeeds" }, head(&segs[i])),
            });
        }
    }
    let last = segs.last().unwrap().lines().last().unwrap_or("");
    match serde_json::from_str::<serde_json::Value>(last) {
        Ok(serde_json::Value::Object(o)) => {
            for (k, v) in snap {
                match o.get(k) {
                    Some(got) if got == v => {}
                    other => {
                        return Some(Viol { clause: "repl-session-differs".into(), stmt, detail: format!("{}: interactive mode emits {:?}, in-process binding {}", k, other, v) });
                    }
                }
            }
            None
        }
        _ => Some(Viol { clause: "repl-session-differs".into(), stmt, detail: format!("the interactive mode's last answer is not an outputs object: {:?}", head(last)) }),
    }
}

// ---------------------------------------------------------------------------------------
// Shrinking and replay
// ---------------------------------------------------------------------------------------

fn drop_stmt(sc: &Scenario, i: usize) -> Scenario {
    let mut s = sc.clone();
    s.stmts.remove(i);
    s.faults = s
        .faults
        .iter()
        .filter_map(|f| match f {
            Fault::Step { stmt, step } => {
                if *stmt == i { None } else { Some(Fault::Step { stmt: if *stmt > i { stmt - 1 } else { *stmt }, step: *step }) }
            }
            Fault::Depth { stmt, depth0 } => {
                if *stmt == i { None } else { Some(Fault::Depth { stmt: if *stmt > i { stmt - 1 } else { *stmt }, depth0: *depth0 }) }
            }
        })
        .collect();
    s
}

pub fn shrink(sc: &Scenario, clause: &str, budget: &mut u64) -> Scenario {
    let still = |c: &Scenario, budget: &mut u64| -> bool {
        if *budget == 0 || c.stmts.is_empty() {
            return false;
        }
        *budget -= 1;
        let ex = execute(c);
        if clause == "repl-session-differs" {
            return ex.violation.is_none() && matches!(repl_cross_check(c, &ex), Some(v) if v.clause == clause);
        }
        if clause == "cli-bindings-differ" {
            return ex.violation.is_none() && matches!(cli_cross_check(c, &ex), Some(v) if v.clause == clause);
        }
        matches!(ex.violation, Some(v) if v.clause == clause)
    };
    let mut cur = sc.clone();
    loop {
        let mut progress = false;
        // environment to canonical
        for f in [0, 1, 2, 3] {
            let mut c = cur.clone();
            match f {
                0 => c.hash_seed = 0,
                1 => c.clock = ClockScript::canonical(),
                2 => c.file_style = false,
                _ => c.inputs_json = "{}".into(),
            }
            if c != cur && still(&c, budget) {
                cur = c;
                progress = true;
            }
        }
        // drop faults
        let mut i = 0;
        while i < cur.faults.len() {
            let mut c = cur.clone();
            c.faults.remove(i);
            if still(&c, budget) {
                cur = c;
                progress = true;
            } else {
                i += 1;
            }
        }
        // drop statements (from the end, so dependencies tend to survive)
        let mut i = cur.stmts.len();
        while i > 0 {
            i -= 1;
            if cur.stmts.len() <= 1 {
                break;
            }
            let c = drop_stmt(&cur, i);
            if still(&c, budget) {
                cur = c;
                progress = true;
            }
        }
        // earlier fault step
        for fi in 0..cur.faults.len() {
            if let Fault::Step { stmt, step } = cur.faults[fi].clone() {
                for cand in [1, step / 2, step.saturating_sub(1)] {
                    if cand >= 1 && cand < step {
                        let mut c = cur.clone();
                        c.faults[fi] = Fault::Step { stmt, step: cand };
                        if still(&c, budget) {
                            cur = c;
                            progress = true;
                            break;
                        }
                    }
                }
            }
        }
        // simplify expressions
        for si in 0..cur.stmts.len() {
            let mut improved = true;
            while improved && *budget > 0 {
                improved = false;
                let cands: Vec<Stmt> = match &cur.stmts[si].stmt {
                    Stmt::Expr(e) => shrink_candidates(e).into_iter().map(Stmt::Expr).collect(),
                    Stmt::Output(n, Some(e)) => {
                        let mut v: Vec<Stmt> = shrink_candidates(e).into_iter().map(|x| Stmt::Output(n.clone(), Some(x))).collect();
                        v.push(Stmt::Expr(E::Assign(n.clone(), Box::new(e.clone()))));
                        v
                    }
                    Stmt::Output(..) => vec![],
                };
                let cur_size = stmt_expr(&cur.stmts[si].stmt).map(|e| size(&e)).unwrap_or(0);
                for cand in cands.into_iter().take(120) {
                    let cs = stmt_expr(&cand).map(|e| size(&e)).unwrap_or(0);
                    if cs >= cur_size && !matches!((&cand, &cur.stmts[si].stmt), (Stmt::Expr(_), Stmt::Output(..))) {
                        continue;
                    }
                    let mut c = cur.clone();
                    c.stmts[si].stmt = cand;
                    if still(&c, budget) {
                        cur = c;
                        improved = true;
                        progress = true;
                        break;
                    }
                }
            }
        }
        if !progress || *budget == 0 {
            break;
        }
    }
    cur
}

fn shape(e: &E) -> String {
    match e {
        E::Num(_) => "#".into(),
        E::Str(_) => "$".into(),
        E::Bool(_) => "B".into(),
        E::Null => "N".into(),
        E::Id(_) => "_".into(),
        E::InRef(_) => "#_".into(),
        E::List(xs) => format!("[{}]", xs.iter().map(shape).collect::<Vec<_>>().join(",")),
        E::Rec(ks) => format!(
            "{{{}}}",
            ks.iter()
                .map(|k| match k {
                    RK::Static(_, v) => format!("k:{}", shape(v)),
                    RK::Dyn(a, b) => format!("[{}]:{}", shape(a), shape(b)),
                    RK::Short(_) => "_".into(),
                    RK::Spread(v) => format!("...{}", shape(v)),
                })
                .collect::<Vec<_>>()
                .join(",")
        ),
        E::Lam(a, b) => format!("\\{}.{}", a.len(), shape(b)),
        E::Assign(_, v) => format!("_={}", shape(v)),
        E::Cond(c, t, f) => format!("if({},{},{})", shape(c), shape(t), shape(f)),
        E::Do(ss, r) => format!("do({};{})", ss.iter().map(shape).collect::<Vec<_>>().join(";"), shape(r)),
        E::Call(f, a) => format!("{}({})", shape(f), a.iter().map(shape).collect::<Vec<_>>().join(",")),
        E::Idx(a, b) => format!("{}[{}]", shape(a), shape(b)),
        E::Dot(a, _) => format!("{}._", shape(a)),
        E::Bin(op, a, b) => format!("({}{}{})", shape(a), op, shape(b)),
        E::Neg(a) => format!("-{}", shape(a)),
        E::Not(a) => format!("!{}", shape(a)),
        E::Fact(a) => format!("{}!", shape(a)),
        E::Spread(a) => format!("...{}", shape(a)),
        E::Raw(s) => format!("raw<{}>", s),
    }
}

pub fn signature(sc: &Scenario, v: &Viol) -> String {
    let st = sc.stmts.get(v.stmt).map(|s| match &s.stmt {
        Stmt::Expr(e) => shape(e),
        Stmt::Output(_, Some(e)) => format!("output _={}", shape(e)),
        Stmt::Output(_, None) => "output _".into(),
    });
    let fault = sc.faults.iter().any(|f| matches!(f, Fault::Step { stmt, .. } | Fault::Depth { stmt, .. } if *stmt == v.stmt));
    format!("{}|{}|fault={}", v.clause, st.unwrap_or_default(), fault)
}

pub fn replay_doc(sc: &Scenario, v: &Viol, hash: u64, seed: u64, run: u64, from: (usize, usize)) -> serde_json::Value {
    json!({
        "property": "C03",
        "engine": "c03",
        "verif_seed": seed,
        "run": run,
        "scenario": sc,
        "source": sc.stmts.iter().map(|s| show_stmt(&s.stmt)).collect::<Vec<_>>(),
        "violation": { "clause": v.clause, "statement": v.stmt, "detail": v.detail },
        "signature": signature(sc, v),
        "history_hash": format!("{:016x}", hash),
        "minimised_from": { "statements": from.0, "faults": from.1 },
    })
}

/// Re-execute a replay file in this process; exit code semantics as the checks.
pub fn replay(path: &str) -> i32 {
    let s = match std::fs::read_to_string(path) {
        Ok(s) => s,
        Err(e) => {
            eprintln!("HARNESS-ERROR: cannot read {}: {}", path, e);
            return 2;
        }
    };
    let doc: serde_json::Value = match serde_json::from_str(&s) {
        Ok(d) => d,
        Err(e) => {
            eprintln!("HARNESS-ERROR: {} is not JSON: {}", path, e);
            return 2;
        }
    };
    let sc: Scenario = match serde_json::from_value(doc["scenario"].clone()) {
        Ok(s) => s,
        Err(e) => {
            eprintln!("HARNESS-ERROR: bad scenario in {}: {}", path, e);
            return 2;
        }
    };
    println!("VERIF_SEED={} (replay; the scenario is self-contained)", doc["verif_seed"]);
    for (i, st) in sc.stmts.iter().enumerate() {
        println!("  [{}] {}", i, show_stmt(&st.stmt));
    }
    for f in &sc.faults {
        println!("  fault: {:?}", f);
    }
    let ex = execute(&sc);
    for (i, o) in ex.outcomes.iter().enumerate() {
        println!("  -> [{}] {} value={:?} steps={} fired={:?}", i, o.status.short(), o.canon, o.steps, o.fault_fired);
    }
    let want_hash = doc["history_hash"].as_str().unwrap_or("");
    let got_hash = format!("{:016x}", ex.hash);
    if !want_hash.is_empty() && want_hash != got_hash {
        eprintln!("HARNESS-ERROR: history hash differs on replay: recorded {} got {}", want_hash, got_hash);
        return 2;
    }
    let viol = match ex.violation.clone() {
        Some(v) => Some(v),
        None => cli_cross_check(&sc, &ex).or_else(|| repl_cross_check(&sc, &ex)),
    };
    crate::cli::cleanup_sandboxes();
    match viol {
        Some(v) => {
            println!("VIOLATION property=C03 replay={}", path);
            println!("  clause={} statement={} detail={}", v.clause, v.stmt, v.detail);
            let want = doc["violation"]["clause"].as_str().unwrap_or("");
            if !want.is_empty() && want != v.clause {
                eprintln!("HARNESS-ERROR: replay reproduced a different clause ({} vs recorded {})", v.clause, want);
                return 2;
            }
            1
        }
        None => {
            println!("no violation on replay (history hash {})", got_hash);
            0
        }
    }
}

// ---------------------------------------------------------------------------------------
// Fixed corpus: hand-written sessions that once violated the property (see DESIGN.md,
// findings F1/F2) plus the scenario files under /verif/regressions. They run first in every
// batch; a "fixed" finding suppresses nothing, so if one returns it is reported.
// ---------------------------------------------------------------------------------------

fn mk(stmts: Vec<(Stmt, &str)>) -> Scenario {
    Scenario {
        hash_seed: 0,
        clock: ClockScript::canonical(),
        file_style: false,
        probe_every: true,
        inputs_json: "{}".into(),
        stmts: stmts.into_iter().map(|(s, k)| SStmt { stmt: s, kind: k.to_string() }).collect(),
        faults: vec![],
    }
}

/// Every reserved name (each built-in, `inputs`, `constants`, the keywords) as the target of a
/// top-level assignment, a nested assignment and an `output` assignment, in one session.
fn reserved_sweep() -> Scenario {
    let mut stmts: Vec<(Stmt, &str)> = vec![];
    let mut names: Vec<String> = all_builtin_names().clone();
    names.push("inputs".into());
    names.push("constants".into());
    names.extend(KEYWORDS.iter().map(|k| k.to_string()));
    for n in &names {
        stmts.push((Stmt::Expr(E::Raw(format!("{} = 1", n))), "bind-reserved"));
        stmts.push((Stmt::Expr(E::Raw(format!("[{} = 1]", n))), "bind-reserved-nested"));
        stmts.push((Stmt::Expr(E::Raw(format!("c = ({} = [1])", n))), "bind-reserved-nested"));
        stmts.push((Stmt::Output(n.clone(), Some(num(1))), "output-reserved"));
    }
    let mut sc = mk(stmts);
    sc.probe_every = false;
    sc
}

pub fn fixed_corpus() -> Vec<(String, Scenario)> {
    let rec_f = |name: &str| {
        Stmt::Expr(assign(
            name,
            lam(&["n"], cond(bin(".==", id("n"), num(0)), st("done"), call(id(name), vec![bin("-", id("n"), num(1))]))),
        ))
    };
    let mut v = vec![
        ("F1a".to_string(), mk(vec![(Stmt::Expr(assign("a", bin("+", assign("a", num(1)), num(1)))), "self-nested"), (Stmt::Expr(id("a")), "observe")])),
        ("F1b".to_string(), mk(vec![(Stmt::Expr(assign("a", E::List(vec![assign("a", num(1)), id("a")]))), "self-nested")])),
        (
            "F2a".to_string(),
            mk(vec![
                (rec_f("f"), "bind-lambda"),
                (Stmt::Expr(assign("fs", E::List(vec![id("f")]))), "handle"),
                (Stmt::Expr(assign("g", id("f"))), "alias"),
            ]),
        ),
        (
            "F2a-through-handle".to_string(),
            mk(vec![
                (rec_f("f"), "bind-lambda"),
                (Stmt::Expr(assign("fs", E::List(vec![id("f")]))), "handle"),
                (Stmt::Expr(assign("g", idx(id("fs"), num(0)))), "alias-through-handle"),
            ]),
        ),
        (
            "F2b".to_string(),
            mk(vec![
                (Stmt::Expr(assign("r", doblk(vec![assign("r", num(41))], lam(&["x"], id("r"))))), "closure-from-do"),
                (Stmt::Expr(assign("g", id("r"))), "alias"),
            ]),
        ),
        (
            "F2c-do-block-renames".to_string(),
            mk(vec![
                (Stmt::Expr(assign("a", num(7))), "bind-data"),
                (Stmt::Expr(assign("fs", E::List(vec![lam(&["x"], id("a"))]))), "handle"),
                (Stmt::Expr(assign("c", doblk(vec![assign("a", idx(id("fs"), num(0)))], num(1)))), "do-shadow-rhs"),
            ]),
        ),
    ];
    // per-call storage that escapes: the rest list / an argument returned as is, inside a record,
    // or captured by a returned closure, from a function that is then called again directly
    v.push((
        "escaping-call-storage".to_string(),
        mk(vec![
            (Stmt::Expr(assign("f", E::Lam(vec![Arg::Rest("xs".into())], Box::new(id("xs"))))), "bind-lambda"),
            (Stmt::Expr(assign("a", call(id("f"), vec![num(1), num(2), num(3)]))), "bind-call-result"),
            (Stmt::Expr(assign("b", call(id("f"), vec![num(4), num(5)]))), "bind-call-result"),
            (
                Stmt::Expr(assign(
                    "g",
                    E::Lam(
                        vec![Arg::Opt("x".into()), Arg::Rest("more".into())],
                        Box::new(E::Rec(vec![
                            RK::Static("r".into(), id("more")),
                            RK::Static("p".into(), id("x")),
                            RK::Static("k".into(), E::Lam(vec![], Box::new(id("more")))),
                        ])),
                    ),
                )),
                "bind-lambda",
            ),
            (Stmt::Expr(assign("c", call(id("g"), vec![num(1), num(10), num(20)]))), "bind-call-result"),
            (Stmt::Expr(assign("d", call(id("g"), vec![]))), "bind-call-result"),
            (
                Stmt::Expr(assign(
                    "r",
                    E::List(vec![
                        call(id("f"), vec![E::Spread(Box::new(E::List(vec![num(7), num(8)])))]),
                        dot(call(id("g"), vec![E::Spread(Box::new(E::List(vec![num(9)])))]), "r"),
                        call(dot(id("c"), "k"), vec![]),
                    ]),
                )),
                "bind-call-result",
            ),
            (Stmt::Expr(assign("s", call(id("map"), vec![E::List(vec![num(1), num(2)]), lam(&["x"], call(id("f"), vec![id("x"), id("x")]))]))), "bind-call-result"),
        ]),
    ));
    v.push(("reserved-sweep".to_string(), reserved_sweep()));
    let dir = format!("{}/regressions", verif_dir());
    if let Ok(rd) = std::fs::read_dir(&dir) {
        let mut files: Vec<_> = rd.filter_map(|e| e.ok()).map(|e| e.path()).collect();
        files.sort();
        for p in files {
            let name = p.file_name().unwrap().to_string_lossy().to_string();
            if !name.starts_with("C03-") || !name.ends_with(".json") {
                continue;
            }
            let Ok(txt) = std::fs::read_to_string(&p) else { continue };
            let Ok(doc) = serde_json::from_str::<serde_json::Value>(&txt) else {
                eprintln!("HARNESS-ERROR: {} is not JSON", p.display());
                std::process::exit(2);
            };
            match serde_json::from_value::<Scenario>(doc["scenario"].clone()) {
                Ok(sc) => v.push((name, sc)),
                Err(e) => {
                    eprintln!("HARNESS-ERROR: bad scenario in {}: {}", p.display(), e);
                    std::process::exit(2);
                }
            }
        }
    }
    v
}

// ---------------------------------------------------------------------------------------
// Batch: sessions x enumerated faults
// ---------------------------------------------------------------------------------------

#[derive(Default, Serialize, Deserialize)]
pub struct Batch {
    pub c: Counters,
    pub violations: Vec<(u64, Scenario, Viol, u64)>, // (run, scenario, violation, hash)
    pub samples: Vec<(u64, serde_json::Value)>,
    pub run_hashes: BTreeMap<u64, u64>,
    pub clock_ns: i128,
}
impl Agg for Batch {
    fn merge(&mut self, o: Self) {
        self.c.merge(o.c);
        self.violations.extend(o.violations);
        self.samples.extend(o.samples);
        self.run_hashes.extend(o.run_hashes);
        self.clock_ns += o.clock_ns;
    }
}

fn fault_steps(n: u64) -> Vec<u64> {
    if n <= 96 {
        (1..=n).collect()
    } else {
        let mut v: BTreeSet<u64> = (1..=32).collect();
        v.extend(n - 31..=n);
        for i in 0..32u64 {
            v.insert(33 + i * (n - 64) / 32);
        }
        v.into_iter().collect()
    }
}

pub fn run_one(seed: u64, run: u64, agg: &mut Batch, keep_hashes: bool) {
    let mut rng = Rng::derive(seed, "c03", run);
    let sc = gen_scenario(&mut rng);
    let mut run_hash: u64 = 0;
    let mut record = |agg: &mut Batch, sc: &Scenario, ex: &Exec| {
        agg.c.inc("executions");
        agg.clock_ns += ex.clock_advance_ns as i128;
        for (k, v) in &ex.stats.n {
            agg.c.add(k, *v);
        }
        for (i, o) in ex.outcomes.iter().enumerate() {
            agg.c.inc(&format!("stmt_status:{}", o.status.short()));
            if let Some((step, site)) = o.fault_fired {
                let kind = sc.stmts.get(i).map(|s| s.kind.clone()).unwrap_or_default();
                agg.c.inc(&format!("fault_fired:{}", if site == Site::Eval { "eval_step" } else { "call_step" }));
                let prior = ex.outcomes[..i].iter().any(|p| p.status == Status::Ok);
                if prior {
                    let bucket = if step <= 2 { "first" } else if step + 1 >= o.steps { "last" } else { "mid" };
                    agg.c.distinct("fault_triples", &format!("{}|{:?}|{}|{}", kind, site, bucket, o.status.short()));
                }
            }
            if o.depth_error {
                agg.c.inc("fault_fired:call_depth");
                let kind = sc.stmts.get(i).map(|s| s.kind.clone()).unwrap_or_default();
                agg.c.distinct("fault_triples", &format!("{}|depth|{}", kind, o.status.short()));
            }
        }
        if let Some(v) = &ex.violation {
            agg.violations.push((run, sc.clone(), v.clone(), ex.hash));
        }
    };
    // 1. fault-free, probes after every statement
    let ex0 = execute(&sc);
    run_hash = mix(run_hash, ex0.hash);
    record(agg, &sc, &ex0);
    agg.c.inc("sessions");
    agg.c.add("statements", sc.stmts.len() as u64);
    agg.c.distinct("hash_seeds", &sc.hash_seed.to_string());
    for s in &sc.stmts {
        agg.c.inc(&format!("kind:{}", s.kind));
    }
    if run < 3 {
        agg.samples.push((
            run,
            json!({
                "run": run,
                "style": if sc.file_style { "file" } else { "repl" },
                "statements": sc.stmts.iter().map(|s| show_stmt(&s.stmt)).collect::<Vec<_>>(),
                "fault_free_status": ex0.outcomes.iter().map(|o| o.status.short()).collect::<Vec<_>>(),
                "steps": ex0.outcomes.iter().map(|o| o.steps).collect::<Vec<_>>(),
            }),
        ));
    }
    if ex0.violation.is_none() && run % 4 == 0 {
        agg.c.inc("cli_cross_checks");
        if let Some(v) = cli_cross_check(&sc, &ex0) {
            agg.violations.push((run, sc.clone(), v, ex0.hash));
        }
    }
    if ex0.violation.is_none() && run % 4 == 2 {
        let before = REPL_PERFORMED.with(|c| c.get());
        let v = repl_cross_check(&sc, &ex0);
        if REPL_PERFORMED.with(|c| c.get()) > before {
            agg.c.inc("repl_cross_checks");
            agg.c.add("repl_statements_typed", sc.stmts.len() as u64);
            agg.c.add("repl_failing_statements_typed", ex0.outcomes.iter().filter(|o| o.status.failed()).count() as u64);
        } else {
            agg.c.inc("repl_cross_checks_skipped");
        }
        if let Some(v) = v {
            agg.violations.push((run, sc.clone(), v, ex0.hash));
        }
    }
    if ex0.violation.is_some() {
        // the fault-free run already violates: enumerate nothing further for this session
        if keep_hashes {
            agg.run_hashes.insert(run, run_hash);
        }
        return;
    }
    // 2. every single step fault (sampled beyond 96 per statement), probes on the faulted
    //    statement and at the end only
    let second = rng.chance(1, 4);
    for (i, o) in ex0.outcomes.iter().enumerate() {
        if o.status == Status::ParseErr || o.status == Status::NotRun {
            continue;
        }
        for k in fault_steps(o.steps) {
            let mut s = sc.clone();
            s.probe_every = false;
            s.faults.push(Fault::Step { stmt: i, step: k });
            if second && i + 1 < sc.stmts.len() {
                let j = i + 1 + (mix(run, k) as usize % (sc.stmts.len() - i - 1));
                let sj = ex0.outcomes[j].steps.max(1);
                s.faults.push(Fault::Step { stmt: j, step: 1 + mix(k, run) % sj });
            }
            let ex = execute(&s);
            run_hash = mix(run_hash, ex.hash);
            record(agg, &s, &ex);
        }
        // natural call-depth faults: the d-th nested call of this statement fails
        if o.call_steps > 0 {
            for d in 0..4usize {
                let mut s = sc.clone();
                s.probe_every = false;
                s.faults.push(Fault::Depth { stmt: i, depth0: 1001 - d });
                let ex = execute(&s);
                run_hash = mix(run_hash, ex.hash);
                record(agg, &s, &ex);
            }
        }
    }
    if keep_hashes {
        agg.run_hashes.insert(run, run_hash);
    }
}

pub fn main_batch(tier: &str, sessions: u64) -> i32 {
    let seed = verif_seed();
    let t0 = crate::seams::real_monotonic_ns();
    println!("VERIF_SEED={} engine=c03 tier={} sessions={} workers={}", seed, tier, sessions, workers());
    let keep = std::env::var("VERIF_HASHES").is_ok();
    let agg: Batch = run_sharded("c03", sessions, move |idx, w| run_indices(idx, w, move |i, a: &mut Batch| run_one(seed, i, a, keep)));
    let mut viols = agg.violations;
    viols.sort_by_key(|v| v.0);
    // fixed corpus first (run index u64::MAX - k so it never collides with sampled runs)
    let corpus = fixed_corpus();
    let mut corpus_viols = vec![];
    for (k, (name, sc)) in corpus.iter().enumerate() {
        let ex = execute(sc);
        if let Some(v) = ex.violation {
            println!("corpus scenario {} violates: {} ({})", name, v.clause, v.detail);
            corpus_viols.push((1_000_000_000 + k as u64, sc.clone(), v, ex.hash));
        }
    }
    println!("c03: fixed corpus: {} scenarios, {} violating", corpus.len(), corpus_viols.len());
    corpus_viols.extend(viols);
    let viols = corpus_viols;
    // minimise distinct clauses (first occurrence each), write replay files
    let mut out: Vec<Violation> = vec![];
    let mut seen: BTreeSet<String> = BTreeSet::new();
    for (run, sc, v, _h) in viols.iter() {
        let pre_sig = format!("{}|{}", v.clause, sc.stmts.get(v.stmt).map(|s| s.kind.clone()).unwrap_or_default());
        if !seen.insert(pre_sig) || out.len() >= 12 {
            continue;
        }
        let mut budget = 1500u64;
        let min = shrink(sc, &v.clause, &mut budget);
        let ex = execute(&min);
        let mv = ex.violation.clone().or_else(|| cli_cross_check(&min, &ex)).or_else(|| repl_cross_check(&min, &ex)).unwrap_or_else(|| v.clone());
        let sig = signature(&min, &mv);
        let name = format!("C03-{}-{}-{:08x}", seed, run, fnv64(sig.as_bytes()) as u32);
        let path = write_replay(&name, &replay_doc(&min, &mv, ex.hash, seed, *run, (sc.stmts.len(), sc.faults.len())));
        out.push(Violation { property: "C03".into(), clause: mv.clause.clone(), detail: mv.detail.clone(), signature: sig, run: *run, replay: Some(path) });
    }
    crate::cli::cleanup_sandboxes();
    let wall = (crate::seams::real_monotonic_ns() - t0) as f64 / 1e9;
    let execs = agg.c.get("executions");
    let mut extra = serde_json::Map::new();
    extra.insert("sessions".into(), json!(agg.c.get("sessions")));
    extra.insert("simulated_runs".into(), json!(execs));
    extra.insert("runs_per_hour".into(), json!((execs as f64 / wall.max(1e-9) * 3600.0) as u64));
    extra.insert("simulated_time_covered_s".into(), json!(agg.clock_ns as f64 / 1e9));
    extra.insert("counters".into(), agg.c.to_json());
    extra.insert(
        "faults_fired".into(),
        json!({
            "eval_step": agg.c.get("fault_fired:eval_step"),
            "call_step": agg.c.get("fault_fired:call_step"),
            "call_depth_limit": agg.c.get("fault_fired:call_depth"),
        }),
    );
    extra.insert("distinct_hash_seeds".into(), json!(agg.c.distinct_count("hash_seeds")));
    extra.insert("seeds".into(), json!(agg.c.get("sessions")));
    extra.insert("cli_cross_checks".into(), json!(agg.c.get("cli_cross_checks")));
    extra.insert("repl_cross_checks".into(), json!(agg.c.get("repl_cross_checks")));
    extra.insert("repl_cross_checks_skipped".into(), json!(agg.c.get("repl_cross_checks_skipped")));
    extra.insert("repl_statements_typed".into(), json!(agg.c.get("repl_statements_typed")));
    extra.insert("repl_failing_statements_typed".into(), json!(agg.c.get("repl_failing_statements_typed")));
    {
        let mut rare = serde_json::Map::new();
        for (k, v) in &agg.c.n {
            if let Some(kind) = k.strip_prefix("rare:") {
                rare.insert(kind.to_string(), json!(v));
            }
        }
        extra.insert("rare_conditions_hit".into(), serde_json::Value::Object(rare));
    }
    extra.insert("sut_panics".into(), json!(agg.c.get("sut_panics")));
    extra.insert(
        "real_vs_stub".into(),
        json!({
            "real": ["blots-core parser", "AST conversion", "evaluator", "environment", "heap", "built-ins", "serialiser (from_value)", "validate_portable_value",
                     "blots main.rs script path (a quarter of the sessions: successful prefix + `output n`, outputs compared with the in-process bindings)",
                     "blots main.rs interactive loop (a quarter of the sessions that are evaluated statement by statement: the whole session, failing statements included, typed through a pseudo-terminal with TERM=dumb; per-statement success / failure and the final outputs compared with the in-process run)"],
            "stub": ["statement loop of the in-process executions (transcribed from blots/src/main.rs REPL loop; cross-checked against the real loop as above)", "OS entropy (getrandom seam)", "clocks (clock_gettime seam)"],
            "not_run": ["rustyline line editing (TERM=dumb: plain line reads)", "blots-wasm"],
        }),
    );
    if keep {
        let h: Vec<String> = agg.run_hashes.iter().map(|(k, v)| format!("{}:{:016x}", k, v)).collect();
        let _ = std::fs::write(std::env::var("VERIF_HASHES").unwrap(), h.join("\n") + "\n");
    }
    let mut samples: Vec<(u64, serde_json::Value)> = agg.samples;
    samples.sort_by_key(|s| s.0);
    let ev = Evidence {
        property: "C03".into(),
        tier: tier.into(),
        seed,
        level: "fault_enumeration".into(),
        evaluations: execs,
        distinct_nontrivial: agg.c.distinct_count("fault_triples"),
        rule: "A case is one execution of a generated session (2..10 statements over the names a b c f g fs r and the reserved words) \
               with at most two injected failures. Within each sampled session every hook step of every statement (all up to 96, else \
               first/last 32 + 32 spread) and call-depth starts 1001..998 are enumerated. distinct_nontrivial counts distinct \
               (statement kind, hook site, position bucket first/mid/last, resulting status) tuples at which a fault actually fired \
               in a session that already had at least one successful statement."
            .into(),
        samples: samples.into_iter().map(|s| s.1).collect(),
        extra,
        assumptions: vec![
            "the statement loop stub mirrors blots/src/main.rs (REPL loop / evaluate_source)".into(),
            "injected failures occur only at entries of evaluate_ast and FunctionDef::call, where real failures can occur".into(),
            "seeded sampling of sessions; exhaustive only over single-fault positions inside each sampled session".into(),
        ],
        wall_s: wall,
        violations: out.len() as u64,
    };
    ev.write();
    println!(
        "c03: sessions={} executions={} faults_fired={} probes={} distinct_fault_triples={} sut_panics={} wall={:.1}s",
        agg.c.get("sessions"),
        execs,
        agg.c.get("fault_fired:eval_step") + agg.c.get("fault_fired:call_step") + agg.c.get("fault_fired:call_depth"),
        agg.c.get("probes"),
        agg.c.distinct_count("fault_triples"),
        agg.c.get("sut_panics"),
        wall
    );
    let code = report("C03", &out);
    if code == 0 {
        println!("C03 OK");
    }
    code
}

pub fn shard_main(n: u64, k: u64, s: u64, out: &str) {
    let seed = verif_seed();
    let keep = std::env::var("VERIF_HASHES").is_ok();
    let a: Batch = run_indices(shard_indices(n, k, s), workers(), move |i, a: &mut Batch| run_one(seed, i, a, keep));
    write_shard_result(out, &a);
}

//! Shared machinery: run indexing and worker pool, verdicts, known findings, evidence.

use serde::{Deserialize, Serialize};
use serde_json::json;
use std::collections::{BTreeMap, BTreeSet};
use std::sync::atomic::{AtomicU64, Ordering};
use std::sync::{Arc, Mutex};

pub fn verif_seed() -> u64 {
    std::env::var("VERIF_SEED").ok().and_then(|s| s.trim().parse::<u64>().ok()).unwrap_or(1)
}

pub fn workers() -> usize {
    std::env::var("VERIF_WORKERS")
        .ok()
        .and_then(|s| s.parse::<usize>().ok())
        .unwrap_or_else(|| std::thread::available_parallelism().map(|n| n.get()).unwrap_or(4))
        .max(1)
}

pub fn verif_dir() -> String {
    std::env::var("VERIF_DIR").unwrap_or_else(|_| "/verif".to_string())
}

/// Commutative, associative aggregate so the batch result does not depend on worker count.
pub trait Agg: Default + Send + 'static {
    fn merge(&mut self, other: Self);
}

/// Run `f(i)` for i in 0..n on `workers` OS threads; each worker folds into its own
/// aggregate; aggregates are merged at the end. `f` must be a pure function of `i`.
pub fn run_pool<A: Agg>(n: u64, workers: usize, f: impl Fn(u64, &mut A) + Send + Sync + 'static) -> A {
    let next = Arc::new(AtomicU64::new(0));
    let f = Arc::new(f);
    let total = Arc::new(Mutex::new(A::default()));
    let mut hs = vec![];
    for _ in 0..workers {
        let next = next.clone();
        let f = f.clone();
        let total = total.clone();
        hs.push(
            std::thread::Builder::new()
                .stack_size(16 << 20)
                .spawn(move || {
                    let mut local = A::default();
                    loop {
                        let i = next.fetch_add(1, Ordering::Relaxed);
                        if i >= n {
                            break;
                        }
                        f(i, &mut local);
                    }
                    total.lock().unwrap().merge(local);
                })
                .unwrap(),
        );
    }
    for h in hs {
        if h.join().is_err() {
            eprintln!("HARNESS-ERROR: worker panicked outside the system under test");
            std::process::exit(2);
        }
    }
    Arc::try_unwrap(total).ok().unwrap().into_inner().unwrap()
}

// ---------------------------------------------------------------------------------------
// Counters
// ---------------------------------------------------------------------------------------

#[derive(Default, Clone, Debug, Serialize, Deserialize)]
pub struct Counters {
    pub n: BTreeMap<String, u64>,
    pub sets: BTreeMap<String, BTreeSet<u64>>,
}

impl Counters {
    pub fn inc(&mut self, k: &str) {
        self.add(k, 1);
    }
    pub fn add(&mut self, k: &str, v: u64) {
        *self.n.entry(k.to_string()).or_insert(0) += v;
    }
    pub fn get(&self, k: &str) -> u64 {
        self.n.get(k).copied().unwrap_or(0)
    }
    /// Record a member of a "distinct" set by its 64-bit hash.
    pub fn distinct(&mut self, set: &str, member: &str) {
        let s = self.sets.entry(set.to_string()).or_default();
        // cap memory: sets are evidence, not decisions
        if s.len() < 2_000_000 {
            s.insert(crate::prng::fnv64(member.as_bytes()));
        }
    }
    pub fn distinct_count(&self, set: &str) -> u64 {
        self.sets.get(set).map(|s| s.len() as u64).unwrap_or(0)
    }
    pub fn merge(&mut self, o: Counters) {
        for (k, v) in o.n {
            *self.n.entry(k).or_insert(0) += v;
        }
        for (k, v) in o.sets {
            self.sets.entry(k).or_default().extend(v);
        }
    }
    pub fn to_json(&self) -> serde_json::Value {
        let mut m = serde_json::Map::new();
        for (k, v) in &self.n {
            m.insert(k.clone(), json!(v));
        }
        for (k, v) in &self.sets {
            m.insert(format!("distinct:{}", k), json!(v.len()));
        }
        serde_json::Value::Object(m)
    }
}

// ---------------------------------------------------------------------------------------
// Violations, known findings
// ---------------------------------------------------------------------------------------

#[derive(Clone, Debug, Serialize, Deserialize)]
pub struct Violation {
    pub property: String,
    pub clause: String,
    pub detail: String,
    /// Stable key identifying *what* fails (used to match known findings); computed from the
    /// minimised scenario, not from the seed.
    pub signature: String,
    pub run: u64,
    pub replay: Option<String>,
}

#[derive(Clone, Debug, Serialize, Deserialize)]
pub struct KnownFinding {
    pub property: String,
    pub id: String,
    /// "open" suppresses (prints KNOWN-FINDING, exit 0); "fixed" suppresses nothing.
    pub status: String,
    /// A violation matches when its signature equals one of these.
    pub signatures: Vec<String>,
    pub what: String,
    #[serde(default)]
    pub commit: Option<String>,
}

pub fn load_known_findings() -> Vec<KnownFinding> {
    let p = format!("{}/known_findings.json", verif_dir());
    match std::fs::read_to_string(&p) {
        Ok(s) => match serde_json::from_str::<serde_json::Value>(&s) {
            Ok(v) => v
                .get("findings")
                .and_then(|f| serde_json::from_value::<Vec<KnownFinding>>(f.clone()).ok())
                .unwrap_or_default(),
            Err(e) => {
                eprintln!("HARNESS-ERROR: {} is not valid JSON: {}", p, e);
                std::process::exit(2);
            }
        },
        Err(_) => vec![],
    }
}

/// Print verdict lines; return process exit code (0 or 1).
pub fn report(property: &str, violations: &[Violation]) -> i32 {
    let known = load_known_findings();
    let mut exit = 0;
    let mut printed_known = BTreeSet::new();
    let mut printed_new = BTreeSet::new();
    for v in violations {
        let hit = known
            .iter()
            .find(|k| k.property == property && k.status == "open" && k.signatures.iter().any(|s| *s == v.signature));
        match hit {
            Some(k) => {
                if printed_known.insert(k.id.clone()) {
                    println!("KNOWN-FINDING: property={} {} [{}] e.g. replay={}", property, k.what, k.id, v.replay.clone().unwrap_or_default());
                }
            }
            None => {
                exit = 1;
                if printed_new.insert(v.signature.clone()) && printed_new.len() <= 10 {
                    println!("VIOLATION property={} replay={}", property, v.replay.clone().unwrap_or_else(|| "<none>".into()));
                    println!("  clause={} signature={} run={} detail={}", v.clause, v.signature, v.run, v.detail);
                }
            }
        }
    }
    exit
}

// ---------------------------------------------------------------------------------------
// Evidence
// ---------------------------------------------------------------------------------------

pub struct Evidence {
    pub property: String,
    pub tier: String,
    pub seed: u64,
    pub level: String,
    pub evaluations: u64,
    pub distinct_nontrivial: u64,
    pub rule: String,
    pub samples: Vec<serde_json::Value>,
    pub extra: serde_json::Map<String, serde_json::Value>,
    pub assumptions: Vec<String>,
    pub wall_s: f64,
    pub violations: u64,
}

impl Evidence {
    pub fn write(&self) {
        if std::env::var("VERIF_NO_EVIDENCE").is_ok() {
            return;
        }
        let mut cov = serde_json::Map::new();
        cov.insert("evaluations".into(), json!(self.evaluations));
        cov.insert("distinct_nontrivial".into(), json!(self.distinct_nontrivial));
        cov.insert("rule".into(), json!(self.rule));
        cov.insert("samples".into(), json!(self.samples));
        cov.insert("exhaustive".into(), json!(false));
        for (k, v) in &self.extra {
            cov.insert(k.clone(), v.clone());
        }
        let doc = json!({
            "property_id": self.property,
            "tier": self.tier,
            "seed": self.seed,
            "level": self.level,
            "coverage": cov,
            "assumptions": self.assumptions,
            "wall_s": self.wall_s,
            "violations": self.violations,
        });
        let dir = format!("{}/evidence", verif_dir());
        let _ = std::fs::create_dir_all(&dir);
        let path = format!("{}/{}.json", dir, self.property);
        let tmp = format!("{}.tmp", path);
        if std::fs::write(&tmp, serde_json::to_string_pretty(&doc).unwrap() + "\n").is_err()
            || std::fs::rename(&tmp, &path).is_err()
        {
            eprintln!("HARNESS-ERROR: cannot write evidence file {}", path);
            std::process::exit(2);
        }
    }
}

pub fn write_replay(name: &str, doc: &serde_json::Value) -> String {
    let dir = if std::env::var("VERIF_NO_EVIDENCE").is_ok() {
        format!("{}/blots-sim-replays", std::env::temp_dir().to_string_lossy())
    } else {
        format!("{}/replays", verif_dir())
    };
    let _ = std::fs::create_dir_all(&dir);
    let path = format!("{}/{}.json", dir, name);
    if std::fs::write(&path, serde_json::to_string_pretty(doc).unwrap() + "\n").is_err() {
        eprintln!("HARNESS-ERROR: cannot write replay file {}", path);
        std::process::exit(2);
    }
    path
}

pub fn tier() -> String {
    std::env::var("VERIF_TIER").unwrap_or_else(|_| "quick".to_string())
}

// ---------------------------------------------------------------------------------------
// Process sharding. blots-core keeps a process-global Mutex<Vec<..>> of call statistics that
// every evaluator call pushes to; sixteen worker threads in one process serialise on it.
// Runs are therefore spread over child processes (one worker each by default). Run i is a
// pure function of (seed, engine, i) and aggregates are commutative, so the batch result
// does not depend on the number of shards.
// ---------------------------------------------------------------------------------------

pub fn shards() -> usize {
    std::env::var("VERIF_SHARDS").ok().and_then(|s| s.parse::<usize>().ok()).unwrap_or_else(workers).max(1)
}

/// Indices of shard k of s over 0..n (strided, so cost variations spread evenly).
pub fn shard_indices(n: u64, k: u64, s: u64) -> Vec<u64> {
    (0..n).filter(|i| i % s == k).collect()
}

pub fn run_indices<A: Agg>(idx: Vec<u64>, workers: usize, f: impl Fn(u64, &mut A) + Send + Sync + 'static) -> A {
    let idx = Arc::new(idx);
    let n = idx.len() as u64;
    let idx2 = idx.clone();
    run_pool(n, workers, move |j, a: &mut A| f(idx2[j as usize], a))
}

pub fn run_sharded<A: Agg + serde::Serialize + serde::de::DeserializeOwned>(engine: &str, n: u64, local: impl Fn(Vec<u64>, usize) -> A) -> A {
    let s = shards();
    if s <= 1 || n < 2 * s as u64 || std::env::var("VERIF_IN_SHARD").is_ok() {
        return local((0..n).collect(), workers());
    }
    let exe = std::env::current_exe().expect("current_exe");
    let dir = format!("{}/blots-sim-shards-{}", std::env::temp_dir().to_string_lossy(), std::process::id());
    let _ = std::fs::create_dir_all(&dir);
    let per = (workers() / s).max(1);
    let mut children = vec![];
    for k in 0..s {
        let out = format!("{}/{}-{}.json", dir, engine, k);
        let child = std::process::Command::new(&exe)
            .args(["shard", engine, &n.to_string(), &k.to_string(), &s.to_string(), &out])
            .env("VERIF_IN_SHARD", "1")
            .env("VERIF_WORKERS", per.to_string())
            .stdin(std::process::Stdio::null())
            .spawn();
        match child {
            Ok(c) => children.push((c, out)),
            Err(e) => {
                eprintln!("HARNESS-ERROR: cannot spawn shard: {}", e);
                std::process::exit(2);
            }
        }
    }
    let mut total = A::default();
    for (mut c, out) in children {
        let st = c.wait().expect("wait shard");
        if !st.success() {
            eprintln!("HARNESS-ERROR: shard process failed ({:?})", st);
            std::process::exit(2);
        }
        let txt = std::fs::read_to_string(&out).unwrap_or_default();
        match serde_json::from_str::<A>(&txt) {
            Ok(a) => total.merge(a),
            Err(e) => {
                eprintln!("HARNESS-ERROR: bad shard result {}: {}", out, e);
                std::process::exit(2);
            }
        }
    }
    let _ = std::fs::remove_dir_all(&dir);
    total
}

pub fn write_shard_result<A: serde::Serialize>(out: &str, a: &A) {
    if std::fs::write(out, serde_json::to_string(a).unwrap()).is_err() {
        eprintln!("HARNESS-ERROR: cannot write shard result {}", out);
        std::process::exit(2);
    }
}

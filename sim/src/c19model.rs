//! Reference model M for the CLI contract (C19). Independent of blots-core: it implements
//! input classification and merging, the `value_k` counter, evaluation of a small script
//! sub-language whose values the harness computes itself, the outputs object with declaration
//! order, and the position of the first failing statement.

use serde::{Deserialize, Serialize};

#[derive(Clone, Debug, PartialEq, Serialize, Deserialize)]
pub enum JV {
    Null,
    Bool(bool),
    Num(f64),
    Str(String),
    List(Vec<JV>),
    /// insertion-ordered, unique keys (later insert of an existing key replaces the value in place)
    Rec(Vec<(String, JV)>),
    /// a value the model does not compute (a function, a built-in, a broadcast result): when it is
    /// an output the key must be present, the value is not compared
    Opaque,
}

impl JV {
    pub fn rec_insert(fields: &mut Vec<(String, JV)>, k: &str, v: JV) {
        if let Some(slot) = fields.iter_mut().find(|(kk, _)| kk == k) {
            slot.1 = v;
        } else {
            fields.push((k.to_string(), v));
        }
    }
    pub fn get(&self, k: &str) -> Option<&JV> {
        match self {
            JV::Rec(f) => f.iter().find(|(kk, _)| kk == k).map(|(_, v)| v),
            _ => None,
        }
    }
    pub fn from_serde(v: &serde_json::Value) -> JV {
        match v {
            serde_json::Value::Null => JV::Null,
            serde_json::Value::Bool(b) => JV::Bool(*b),
            serde_json::Value::Number(n) => JV::Num(n.as_f64().unwrap_or(0.0)),
            serde_json::Value::String(s) => JV::Str(s.clone()),
            serde_json::Value::Array(a) => JV::List(a.iter().map(JV::from_serde).collect()),
            serde_json::Value::Object(o) => {
                let mut f = vec![];
                for (k, v) in o.iter() {
                    JV::rec_insert(&mut f, k, JV::from_serde(v));
                }
                JV::Rec(f)
            }
        }
    }
    /// Value equality: numbers as doubles, records ignoring key order.
    pub fn same(&self, o: &JV) -> bool {
        match (self, o) {
            (JV::Null, JV::Null) => true,
            (JV::Bool(a), JV::Bool(b)) => a == b,
            (JV::Num(a), JV::Num(b)) => a == b,
            (JV::Str(a), JV::Str(b)) => a == b,
            (JV::List(a), JV::List(b)) => a.len() == b.len() && a.iter().zip(b).all(|(x, y)| x.same(y)),
            (JV::Rec(a), JV::Rec(b)) => a.len() == b.len() && a.iter().all(|(k, v)| b.iter().any(|(k2, v2)| k == k2 && v.same(v2))),
            (JV::Opaque, _) | (_, JV::Opaque) => true,
            _ => false,
        }
    }
    /// JSON text (used to render input documents).
    pub fn to_json(&self) -> String {
        match self {
            JV::Null => "null".into(),
            JV::Opaque => "\"<opaque>\"".into(),
            JV::Bool(b) => b.to_string(),
            JV::Num(n) => {
                if n.fract() == 0.0 && n.abs() < 1e15 { format!("{}", *n as i64) } else { format!("{:?}", n) }
            }
            JV::Str(s) => serde_json::to_string(s).unwrap(),
            JV::List(xs) => format!("[{}]", xs.iter().map(|x| x.to_json()).collect::<Vec<_>>().join(",")),
            JV::Rec(f) => format!(
                "{{{}}}",
                f.iter().map(|(k, v)| format!("{}:{}", serde_json::to_string(k).unwrap(), v.to_json())).collect::<Vec<_>>().join(",")
            ),
        }
    }
}

/// Expressions of the modelled sub-language.
#[derive(Clone, Debug, PartialEq, Serialize, Deserialize)]
pub enum CE {
    Lit(JV),
    /// `inputs.k` (k an identifier)
    InDot(String),
    /// `inputs["k"]`
    InIdx(String),
    /// `#k`
    InRef(String),
    /// `#k ?? literal`
    Coalesce(Box<CE>, JV),
    /// `inputs`
    Inputs,
    /// integer addition of two numeric operands (literals or names bound to numbers)
    Add(Box<CE>, Box<CE>),
    List(Vec<CE>),
    Rec(Vec<(String, CE)>),
    Name(String),
    /// source text of an expression known to succeed whose value the model does not compute
    Opaque(String),
    /// the inner expression evaluated inside a function body (0), a do-block (1), a `via`
    /// callback (2) or a conditional branch (3): same value, different evaluation context
    Wrap(u8, Box<CE>),
}

#[derive(Clone, Debug, PartialEq, Serialize, Deserialize)]
pub enum CStmt {
    Bind(String, CE),
    OutBind(String, CE),
    Out(String),
    /// `output w` where w is visible but not a binding (a built-in, `constants`)
    OutVisible(String),
    /// A statement of a class known to fail: (class, source text)
    Fail(String, String),
    /// As Fail, but refused by the parser: the whole script fails before anything runs.
    Syntax(String),
    Comment(String),
}

fn lit_src(v: &JV) -> String {
    match v {
        JV::Null => "null".into(),
        JV::Opaque => "null".into(),
        JV::Bool(b) => b.to_string(),
        JV::Num(n) => {
            if *n < 0.0 {
                format!("(-{})", lit_src(&JV::Num(-*n)))
            } else if n.fract() == 0.0 && n.abs() < 1e15 {
                format!("{}", *n as i64)
            } else {
                format!("{:?}", n)
            }
        }
        JV::Str(s) => {
            if !s.contains('"') { format!("\"{}\"", s) } else { format!("'{}'", s) }
        }
        JV::List(xs) => format!("[{}]", xs.iter().map(lit_src).collect::<Vec<_>>().join(", ")),
        JV::Rec(f) => format!(
            "{{{}}}",
            f.iter().map(|(k, v)| format!("{}: {}", key_src(k), lit_src(v))).collect::<Vec<_>>().join(", ")
        ),
    }
}

fn key_src(k: &str) -> String {
    if crate::hast::is_ident(k) { k.to_string() } else { format!("\"{}\"", k) }
}

pub fn ce_src(e: &CE) -> String {
    match e {
        CE::Lit(v) => lit_src(v),
        CE::InDot(k) => format!("inputs.{}", k),
        CE::InIdx(k) => format!("inputs[\"{}\"]", k),
        CE::InRef(k) => format!("#{}", k),
        CE::Coalesce(a, d) => format!("{} ?? {}", ce_src(a), lit_src(d)),
        CE::Inputs => "inputs".into(),
        CE::Add(a, b) => format!("{} + {}", ce_src(a), ce_src(b)),
        CE::List(xs) => format!("[{}]", xs.iter().map(ce_src).collect::<Vec<_>>().join(", ")),
        CE::Rec(f) => format!("{{{}}}", f.iter().map(|(k, v)| format!("{}: {}", key_src(k), ce_src(v))).collect::<Vec<_>>().join(", ")),
        CE::Name(n) => n.clone(),
        CE::Opaque(src) => src.clone(),
        CE::Wrap(k, inner) => match k {
            0 => format!("((zz) => {})(0)", ce_src(inner)),
            1 => format!("do {{ zq = 1; return {} }}", ce_src(inner)),
            2 => format!("([1] via ((zz) => {}))[0]", ce_src(inner)),
            _ => format!("if 1 .< 2 then {} else 0", ce_src(inner)),
        },
    }
}

pub fn stmt_src(s: &CStmt) -> String {
    match s {
        CStmt::Bind(n, e) => format!("{} = {}", n, ce_src(e)),
        CStmt::OutBind(n, e) => format!("output {} = {}", n, ce_src(e)),
        CStmt::Out(n) | CStmt::OutVisible(n) => format!("output {}", n),
        CStmt::Fail(_, t) | CStmt::Syntax(t) => t.clone(),
        CStmt::Comment(t) => format!("// {}", t),
    }
}

pub fn script_src(stmts: &[CStmt]) -> String {
    let mut s = stmts.iter().map(stmt_src).collect::<Vec<_>>().join("\n");
    s.push('\n');
    s
}

// ---------------------------------------------------------------------------------------
// Inputs
// ---------------------------------------------------------------------------------------

#[derive(Clone, Debug, PartialEq)]
pub enum InputsResult {
    Ok(Vec<(String, JV)>),
    /// which source was malformed (0 = stdin, k = k-th --input)
    Malformed(usize),
}

/// `stdin`: Some(bytes delivered) when the CLI reads inputs from stdin, None when it does not
/// (terminal / -e mode). Sources are merged left to right, later keys override, non-objects
/// are named value_1, value_2, ... by one global counter in order of appearance.
pub fn merge_inputs(stdin: Option<&[u8]>, flags: &[String]) -> InputsResult {
    let mut merged: Vec<(String, JV)> = vec![];
    let mut counter = 0usize;
    let mut add = |text: &str, idx: usize, merged: &mut Vec<(String, JV)>| -> Result<(), usize> {
        match serde_json::from_str::<serde_json::Value>(text) {
            Ok(serde_json::Value::Object(o)) => {
                for (k, v) in o.iter() {
                    JV::rec_insert(merged, k, JV::from_serde(v));
                }
                Ok(())
            }
            Ok(other) => {
                counter += 1;
                JV::rec_insert(merged, &format!("value_{}", counter), JV::from_serde(&other));
                Ok(())
            }
            Err(_) => Err(idx),
        }
    };
    if let Some(bytes) = stdin {
        match std::str::from_utf8(bytes) {
            Ok(text) => {
                if !text.trim().is_empty() {
                    if let Err(i) = add(text, 0, &mut merged) {
                        return InputsResult::Malformed(i);
                    }
                }
            }
            Err(_) => {
                // not text, so not a JSON document: a malformed input source
                return InputsResult::Malformed(0);
            }
        }
    }
    for (i, f) in flags.iter().enumerate() {
        if let Err(i) = add(f, i + 1, &mut merged) {
            return InputsResult::Malformed(i);
        }
    }
    InputsResult::Ok(merged)
}

// ---------------------------------------------------------------------------------------
// Evaluation
// ---------------------------------------------------------------------------------------

#[derive(Clone, Debug, PartialEq)]
pub enum Expect {
    /// every statement succeeds; outputs in declaration order. `loose` lists keys whose
    /// presence is optional-or-required per the OutVisible rule (value not modelled).
    Success { outputs: Vec<(String, JV)>, visible: Vec<String> },
    /// some statement fails (index), or an input is malformed, or the script does not parse
    Failure { why: String },
    /// the script left the modelled sub-language for these inputs (e.g. `??` applied to a list,
    /// which broadcasts): the oracle makes no claim about this run
    Unknown,
}

pub fn eval_ce(e: &CE, env: &[(String, JV)], inputs: &[(String, JV)]) -> Option<JV> {
    let get_in = |k: &str| inputs.iter().find(|(kk, _)| kk == k).map(|(_, v)| v.clone()).unwrap_or(JV::Null);
    Some(match e {
        CE::Lit(v) => v.clone(),
        CE::InDot(k) | CE::InIdx(k) | CE::InRef(k) => get_in(k),
        CE::Coalesce(a, d) => {
            let v = eval_ce(a, env, inputs)?;
            if matches!(v, JV::List(_)) {
                return None; // `??` broadcasts over lists: outside the model
            }
            if v == JV::Null { d.clone() } else { v }
        }
        CE::Inputs => JV::Rec(inputs.to_vec()),
        CE::Add(a, b) => match (eval_ce(a, env, inputs)?, eval_ce(b, env, inputs)?) {
            (JV::Num(x), JV::Num(y)) => JV::Num(x + y),
            _ => return None,
        },
        CE::List(xs) => JV::List(xs.iter().map(|x| eval_ce(x, env, inputs)).collect::<Option<Vec<_>>>()?),
        CE::Rec(f) => {
            let mut out = vec![];
            for (k, v) in f {
                JV::rec_insert(&mut out, k, eval_ce(v, env, inputs)?);
            }
            JV::Rec(out)
        }
        CE::Name(n) => env.iter().find(|(k, _)| k == n).map(|(_, v)| v.clone())?,
        CE::Opaque(_) => JV::Opaque,
        CE::Wrap(_, inner) => eval_ce(inner, env, inputs)?,
    })
}

/// Function-valued members of input documents (`{"__blots_function": source}`): sources the
/// generator uses, self-contained ones and ones that read a name bound nowhere (`u`, `x`, `y`
/// are never bound by a generated script).
pub const FN_OK: &[&str] = &["x => x * 2", "(a, b) => a + b", "y => [y, 1]", "x => x + 1"];
pub const FN_BAD: &[&str] = &["x => x * u", "(a, b) => a + u", "y => [u, 1]", "y => y * x"]; // paired with FN_OK by index: same shape

fn fn_kind(v: &JV) -> Option<bool> {
    // any object that has the key is read as a function (other members are dropped)
    if let JV::Rec(f) = v {
        if let Some((_, JV::Str(src))) = f.iter().find(|(k, _)| k == "__blots_function") {
            if FN_OK.contains(&src.as_str()) {
                return Some(true);
            }
            if FN_BAD.contains(&src.as_str()) {
                return Some(false);
            }
        }
    }
    None
}

/// What an `output` of `v` emits: a self-contained function is re-emitted in the CLI's own
/// spelling (not compared), a function that is not self-contained is refused (`Err`).
fn as_output(v: &JV) -> Result<JV, ()> {
    match fn_kind(v) {
        Some(true) => return Ok(JV::Opaque),
        Some(false) => return Err(()),
        None => {}
    }
    Ok(match v {
        JV::List(xs) => JV::List(xs.iter().map(as_output).collect::<Result<Vec<_>, ()>>()?),
        JV::Rec(f) => {
            let mut out = vec![];
            for (k, x) in f {
                out.push((k.clone(), as_output(x)?));
            }
            JV::Rec(out)
        }
        other => other.clone(),
    })
}

pub fn run_model(stmts: &[CStmt], inputs: &InputsResult) -> Expect {
    let inputs = match inputs {
        InputsResult::Malformed(i) => return Expect::Failure { why: format!("input source {} is malformed", i) },
        InputsResult::Ok(m) => m.clone(),
    };
    if let Some(i) = stmts.iter().position(|s| matches!(s, CStmt::Syntax(_))) {
        return Expect::Failure { why: format!("statement {} is a syntax error: nothing runs", i) };
    }
    let mut env: Vec<(String, JV)> = vec![];
    let mut outputs: Vec<(String, JV)> = vec![];
    let mut visible: Vec<String> = vec![];
    for (i, s) in stmts.iter().enumerate() {
        match s {
            CStmt::Comment(_) => {}
            CStmt::Fail(class, _) => return Expect::Failure { why: format!("statement {} fails ({})", i, class) },
            CStmt::Syntax(_) => unreachable!(),
            CStmt::Bind(n, e) | CStmt::OutBind(n, e) => {
                if env.iter().any(|(k, _)| k == n) {
                    return Expect::Failure { why: format!("statement {} rebinds {}", i, n) };
                }
                match eval_ce(e, &env, &inputs) {
                    Some(v) => {
                        env.push((n.clone(), v.clone()));
                        if matches!(s, CStmt::OutBind(..)) {
                            match as_output(&v) {
                                Ok(o) => JV::rec_insert(&mut outputs, n, o),
                                Err(()) => return Expect::Failure { why: format!("statement {} outputs a function that is not self-contained", i) },
                            }
                        }
                    }
                    None => return Expect::Unknown,
                }
            }
            CStmt::Out(n) => {
                let v = if n == "inputs" {
                    // the members of the merged record are values; the record itself is not
                    let mut members = vec![];
                    for (k, x) in inputs.iter() {
                        match as_output(x) {
                            Ok(o) => members.push((k.clone(), o)),
                            Err(()) => return Expect::Failure { why: format!("statement {} outputs a function that is not self-contained", i) },
                        }
                    }
                    JV::rec_insert(&mut outputs, n, JV::Rec(members));
                    continue;
                } else {
                    match env.iter().find(|(k, _)| k == n) {
                        Some((_, v)) => v.clone(),
                        None => return Expect::Failure { why: format!("statement {} outputs unbound {}", i, n) },
                    }
                };
                match as_output(&v) {
                    Ok(o) => JV::rec_insert(&mut outputs, n, o),
                    Err(()) => return Expect::Failure { why: format!("statement {} outputs a function that is not self-contained", i) },
                }
            }
            CStmt::OutVisible(n) => {
                if !visible.contains(n) {
                    visible.push(n.clone());
                }
                JV::rec_insert(&mut outputs, n, JV::Opaque);
            }
        }
    }
    Expect::Success { outputs, visible }
}

// ---------------------------------------------------------------------------------------
// Ordered top-level key scan of a JSON object text (the only JSON parsing the oracle does on
// the CLI's output besides serde_json: serde_json's Map is sorted, so order must be read
// from the text).
// ---------------------------------------------------------------------------------------

pub fn top_level_keys(text: &str) -> Option<Vec<String>> {
    let b = text.as_bytes();
    let mut i = 0usize;
    let skip_ws = |i: &mut usize| {
        while *i < b.len() && (b[*i] == b' ' || b[*i] == b'\n' || b[*i] == b'\t' || b[*i] == b'\r') {
            *i += 1;
        }
    };
    fn skip_string(b: &[u8], i: &mut usize) -> Option<String> {
        if b.get(*i) != Some(&b'"') {
            return None;
        }
        let start = *i;
        *i += 1;
        while *i < b.len() {
            match b[*i] {
                b'\\' => *i += 2,
                b'"' => {
                    *i += 1;
                    let raw = std::str::from_utf8(&b[start..*i]).ok()?;
                    return serde_json::from_str::<String>(raw).ok();
                }
                _ => *i += 1,
            }
        }
        None
    }
    fn skip_value(b: &[u8], i: &mut usize) -> Option<()> {
        while *i < b.len() && (b[*i] == b' ' || b[*i] == b'\n' || b[*i] == b'\t' || b[*i] == b'\r') {
            *i += 1;
        }
        match b.get(*i)? {
            b'"' => {
                skip_string(b, i)?;
            }
            b'{' | b'[' => {
                let mut depth = 0i32;
                loop {
                    match b.get(*i)? {
                        b'"' => {
                            skip_string(b, i)?;
                            continue;
                        }
                        b'{' | b'[' => depth += 1,
                        b'}' | b']' => depth -= 1,
                        _ => {}
                    }
                    *i += 1;
                    if depth == 0 {
                        break;
                    }
                }
            }
            _ => {
                while *i < b.len() && !matches!(b[*i], b',' | b'}' | b']' | b' ' | b'\n') {
                    *i += 1;
                }
            }
        }
        Some(())
    }
    skip_ws(&mut i);
    if b.get(i) != Some(&b'{') {
        return None;
    }
    i += 1;
    let mut keys = vec![];
    skip_ws(&mut i);
    if b.get(i) == Some(&b'}') {
        return Some(keys);
    }
    loop {
        skip_ws(&mut i);
        let k = skip_string(b, &mut i)?;
        keys.push(k);
        skip_ws(&mut i);
        if b.get(i) != Some(&b':') {
            return None;
        }
        i += 1;
        skip_value(b, &mut i)?;
        skip_ws(&mut i);
        match b.get(i)? {
            b',' => i += 1,
            b'}' => return Some(keys),
            _ => return None,
        }
    }
}

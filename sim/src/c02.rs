//! Engine c02 — "evaluation is deterministic and free of side effects on values".
//! The same program is executed in a canonical reference environment and in environments the
//! simulator constructs: other hash seeds, scripted clocks, unrelated earlier evaluations on
//! the same heap / same thread / other threads under a controlled scheduler with preemption
//! at hook points, injected failures in the unrelated work; plus the two metamorphic clauses
//! of the property (evaluate twice, let-abstraction of a strict sub-expression).

use crate::c03::gen_clock;
use crate::common::*;
use crate::hast::*;
use crate::pgen::*;
use crate::prng::{Rng, fnv64, mix};
use crate::sched::*;
use crate::seams::ClockScript;
use crate::session::*;
use serde::{Deserialize, Serialize};
use serde_json::json;
use std::collections::{BTreeMap, BTreeSet};

#[derive(Clone, Debug, PartialEq, Serialize, Deserialize)]
pub enum Role {
    /// statement `i` of the program under test
    P(usize),
    /// unrelated work (names carry a reserved prefix)
    Noise,
    /// re-evaluation of P's assignment-free statement `i` (EvalTwice)
    Reeval(usize),
    /// `lt = s` hoisted sub-expression for LetAbstract of statement `i`
    Hoist(usize),
}

#[derive(Clone, Debug, PartialEq, Serialize, Deserialize)]
pub struct Item {
    pub role: Role,
    pub stmt: Stmt,
    pub inject_at: Option<u64>,
    pub depth0: usize,
    pub yield_at: Vec<u64>,
    /// preemption points in the finer numbering that also counts heap-cell accesses (inside
    /// built-ins, comparisons, stringification)
    #[serde(default)]
    pub yield_heap_at: Vec<u64>,
    /// dense preemption: yield at every n-th hook point (0 = off)
    #[serde(default)]
    pub yield_every: u64,
}

impl Item {
    fn plain(role: Role, stmt: Stmt) -> Item {
        Item { role, stmt, inject_at: None, depth0: 0, yield_at: vec![], yield_heap_at: vec![], yield_every: 0 }
    }
}

#[derive(Clone, Debug, PartialEq, Serialize, Deserialize)]
pub struct ThreadPlan {
    pub hash_seed: u64,
    pub clock: ClockScript,
    /// sessions run one after the other on this thread; each is a fresh heap + environment
    pub sessions: Vec<Vec<Item>>,
}

#[derive(Clone, Debug, PartialEq, Serialize, Deserialize)]
pub struct Scenario {
    pub kind: String,
    pub inputs_json: String,
    /// the program under test, for reference (the environment below embeds its statements)
    pub program: Vec<Stmt>,
    pub threads: Vec<ThreadPlan>,
    pub prefs: Vec<u8>,
}

#[derive(Clone, Debug, Serialize, Deserialize)]
pub struct ItemResult {
    pub role: Role,
    pub status: Status,
    pub canon: Option<String>,
    pub steps: u64,
    pub fired: bool,
    pub yields: u64,
    pub depth_error: bool,
}

#[derive(Clone, Debug, Serialize, Deserialize)]
pub struct Viol {
    pub clause: String,
    pub detail: String,
}

#[derive(Clone, Debug, Serialize, Deserialize)]
pub struct ThreadOut {
    pub items: Vec<ItemResult>,
    pub viol: Option<Viol>,
    pub outputs: Vec<(String, Option<String>)>,
    pub noise_between_p: u64,
    /// `output` declarations refused as not portable (the CLI exits 1 on those)
    #[serde(default)]
    pub output_errors: u32,
}

fn run_thread(plan: ThreadPlan, inputs_json: String, y: &Yielder) -> ThreadOut {
    install_hooks();
    let yh = y.clone_handle();
    set_yielder(Some(Box::new(move || yh.yield_now())));
    let mut out = ThreadOut { items: vec![], viol: None, outputs: vec![], noise_between_p: 0, output_errors: 0 };
    for items in plan.sessions {
        let sess = Session::new(Some(&inputs_json));
        // clause 4 bookkeeping: value of each P name when it was bound
        let mut pvals: BTreeMap<String, Option<String>> = BTreeMap::new();
        let mut seen_p = false;
        for it in items {
            let src = show_stmt(&it.stmt);
            let cfg_inject = it.inject_at;
            let cfg_depth = it.depth0;
            let cfg_yield = it.yield_at.clone();
            let cfg_yield_heap = it.yield_heap_at.clone();
            let cfg_every = it.yield_every;
            let before: BTreeSet<String> = if matches!(it.role, Role::P(_)) { sess.root().keys().cloned().collect() } else { BTreeSet::new() };
            let outs = sess.eval_source(
                &src,
                &mut |_| EvalCfg { depth0: cfg_depth, inject_at: cfg_inject, yield_at: cfg_yield.clone(), yield_heap_at: cfg_yield_heap.clone(), yield_every: cfg_every },
                &mut |_, _, _| {},
            );
            let o = outs.into_iter().next().unwrap_or(Outcome {
                status: Status::NotRun,
                canon: None,
                err: None,
                steps: 0,
                call_steps: 0,
                fault_fired: None,
                depth_error: false,
                yields: 0,
                output_error: false,
            });
            match &it.role {
                Role::P(_) => {
                    seen_p = true;
                    if !sess.dead.get() {
                        for (k, v) in sess.root() {
                            if !before.contains(&k) {
                                pvals.insert(k.clone(), sess.canon_of(&v));
                            }
                        }
                    }
                }
                Role::Noise | Role::Reeval(_) | Role::Hoist(_) => {
                    if seen_p {
                        out.noise_between_p += 1;
                    }
                    // clause 4: unrelated evaluation has no effect on P's bound values
                    if out.viol.is_none() && !sess.dead.get() && !pvals.is_empty() {
                        let root = sess.root();
                        for (k, c0) in &pvals {
                            match root.get(k) {
                                None => {
                                    out.viol = Some(Viol { clause: "noise-changed-binding".into(), detail: format!("{} disappeared after `{}`", k, src) });
                                }
                                Some(v) => {
                                    let c1 = sess.canon_of(v);
                                    if c1 != *c0 {
                                        out.viol = Some(Viol {
                                            clause: "noise-changed-binding".into(),
                                            detail: format!("{} changed from {:?} to {:?} after `{}`", k, c0, c1, src),
                                        });
                                    }
                                }
                            }
                        }
                    }
                }
            }
            out.items.push(ItemResult {
                role: it.role.clone(),
                status: o.status,
                canon: o.canon.clone(),
                steps: o.steps,
                fired: o.fault_fired.is_some(),
                yields: o.yields,
                depth_error: o.depth_error,
            });
            // statement boundary: a scheduling point
            y.yield_now();
        }
        if seen_p {
            out.outputs = sess.outputs.borrow().iter().map(|(k, v)| (k.clone(), v.clone())).collect();
            out.output_errors = sess.output_errors.get();
        }
    }
    set_yielder(None);
    out
}

#[derive(Clone, Debug, Serialize, Deserialize)]
pub struct Exec {
    pub threads: Vec<ThreadOut>,
    pub decisions: Vec<u8>,
    pub hash: u64,
    pub clock_ns: i64,
}

pub fn execute(sc: &Scenario) -> Exec {
    let specs: Vec<ThreadSpec<ThreadOut>> = sc
        .threads
        .iter()
        .map(|tp| {
            let plan = tp.clone();
            let inputs = sc.inputs_json.clone();
            ThreadSpec { hash_seed: tp.hash_seed, clock: tp.clock.clone(), body: Box::new(move |y: &Yielder| run_thread(plan, inputs, y)) }
        })
        .collect();
    let stuck_before = crate::sched::STUCK_RUNS.load(std::sync::atomic::Ordering::Relaxed);
    let (threads, mut decisions, stats) = run_scheduled(specs, &sc.prefs);
    if crate::sched::STUCK_RUNS.load(std::sync::atomic::Ordering::Relaxed) != stuck_before {
        // marker decision: this execution was released from scheduling (see sched.rs)
        decisions.push(255);
    }
    let mut h = fnv64(&decisions);
    for t in &threads {
        for it in &t.items {
            h = mix(h, fnv64(format!("{:?}|{}|{:?}|{}|{}", it.role, it.status.short(), it.canon, it.steps, it.yields).as_bytes()));
        }
    }
    let clock_ns = stats.iter().map(|s| s.clock_advance_ns).sum();
    // profiling statistics are a process-global vector that grows with every call: drop them
    crate::session::trim_call_stats();
    Exec { threads, decisions, hash: h, clock_ns }
}

/// Results of P's statements in an execution, in program order.
fn p_results(ex: &Exec) -> BTreeMap<usize, &ItemResult> {
    let mut m = BTreeMap::new();
    for t in &ex.threads {
        for it in &t.items {
            if let Role::P(i) = it.role {
                m.insert(i, it);
            }
        }
    }
    m
}

pub fn reference_scenario(program: &[Stmt], inputs_json: &str) -> Scenario {
    Scenario {
        kind: "reference".into(),
        inputs_json: inputs_json.to_string(),
        program: program.to_vec(),
        threads: vec![ThreadPlan {
            hash_seed: 0,
            clock: ClockScript::canonical(),
            sessions: vec![program.iter().enumerate().map(|(i, s)| Item::plain(Role::P(i), s.clone())).collect()],
        }],
        prefs: vec![0],
    }
}

/// The oracle: compare an execution of `sc` with the reference execution of the same program.
pub fn judge(sc: &Scenario, ex: &Exec, reference: &Exec) -> Option<Viol> {
    judge_inner(sc, ex, reference).map(|mut v| {
        if v.detail.chars().count() > 700 {
            let head: String = v.detail.chars().take(450).collect();
            let tail: String = v.detail.chars().rev().take(200).collect::<Vec<_>>().into_iter().rev().collect();
            v.detail = format!("{} ...[{} characters]... {}", head, v.detail.chars().count(), tail);
        }
        v
    })
}

fn judge_inner(sc: &Scenario, ex: &Exec, reference: &Exec) -> Option<Viol> {
    for t in &ex.threads {
        if let Some(v) = &t.viol {
            return Some(v.clone());
        }
    }
    let r = p_results(reference);
    let e = p_results(ex);
    // hoisted statements, by the P index they belong to
    let mut hoist: BTreeMap<usize, &ItemResult> = BTreeMap::new();
    for t in &ex.threads {
        for it in &t.items {
            if let Role::Hoist(i) = it.role {
                hoist.insert(i, it);
            }
        }
    }
    for (i, rr) in &r {
        let Some(ee) = e.get(i) else { continue };
        // a panic in both proves nothing either way (C01's subject); in only one is a divergence
        if rr.status == Status::Panic && ee.status == Status::Panic {
            break;
        }
        if rr.status == Status::NotRun || ee.status == Status::NotRun {
            // unrelated work that panicked took the shared session down with it: that the noise
            // panics at all is C01's subject; nothing can be said about P after it
            let noise_panicked = ex.threads.iter().any(|t| t.items.iter().any(|it| it.status == Status::Panic && !matches!(it.role, Role::P(_))));
            if noise_panicked && ee.status == Status::NotRun {
                continue;
            }
            if rr.status != ee.status {
                return Some(Viol { clause: "status-divergence".into(), detail: format!("statement {}: reference {} vs {} in environment {}", i, rr.status.short(), ee.status.short(), sc.kind) });
            }
            continue;
        }
        if let Some(h) = hoist.get(i) {
            // LetAbstract: if the hoisted sub-expression fails, the statement fails in both;
            // only status is compared
            if h.status.failed() {
                if !(ee.status.failed() && rr.status.failed()) {
                    return Some(Viol {
                        clause: "let-abstraction".into(),
                        detail: format!("statement {}: hoisted sub-expression fails but original is {} / abstracted is {}", i, rr.status.short(), ee.status.short()),
                    });
                }
                continue;
            }
        }
        if rr.status.failed() != ee.status.failed() || (rr.status == Status::Panic) != (ee.status == Status::Panic) {
            let clause = if hoist.contains_key(i) { "let-abstraction" } else { "status-divergence" };
            return Some(Viol { clause: clause.into(), detail: format!("statement {}: reference {} vs {} in environment {}", i, rr.status.short(), ee.status.short(), sc.kind) });
        }
        if rr.status == Status::Ok && rr.canon != ee.canon {
            let clause = if hoist.contains_key(i) { "let-abstraction" } else { "value-divergence" };
            return Some(Viol { clause: clause.into(), detail: format!("statement {}: reference {:?} vs {:?} in environment {}", i, rr.canon, ee.canon, sc.kind) });
        }
    }
    // EvalTwice: every re-evaluation agrees with the statement's own result in this execution
    let reeval_ok = reeval_candidates(&sc.program);
    for t in &ex.threads {
        for it in &t.items {
            if let Role::Reeval(i) = it.role {
                if !reeval_ok.contains(&i) {
                    continue;
                }
                if let Some(first) = e.get(&i) {
                    if first.status == Status::Panic || it.status == Status::Panic || it.status == Status::NotRun || first.status == Status::NotRun {
                        continue;
                    }
                    if first.status.failed() != it.status.failed() || (first.status == Status::Ok && first.canon != it.canon) {
                        return Some(Viol {
                            clause: "eval-twice".into(),
                            detail: format!("statement {} evaluated again gives {} {:?}, first time {} {:?}", i, it.status.short(), it.canon, first.status.short(), first.canon),
                        });
                    }
                }
            }
        }
    }
    // outputs of P
    let ro: Vec<_> = reference.threads.iter().flat_map(|t| t.outputs.clone()).collect();
    let eo: Vec<_> = ex.threads.iter().flat_map(|t| t.outputs.clone()).collect();
    let all_ran = r.len() == e.len() && e.values().all(|x| x.status != Status::NotRun);
    if all_ran && ro != eo && !r.values().any(|x| x.status == Status::Panic) {
        return Some(Viol { clause: "outputs-divergence".into(), detail: format!("outputs {:?} vs reference {:?}", eo, ro) });
    }
    None
}

// ---------------------------------------------------------------------------------------
// Environment construction
// ---------------------------------------------------------------------------------------

fn is_frame_assignment_free(s: &Stmt) -> bool {
    match s {
        Stmt::Expr(e) => {
            let mut d = vec![];
            let mut p = BTreeSet::new();
            frame_assigned(e, false, &mut d, &mut p);
            p.is_empty() && !contains_raw(e)
        }
        _ => false,
    }
}

/// Statements that may be evaluated a second time later in the session with the same result:
/// assignment-free, and every program name they mention is bound by an EARLIER statement (a
/// name that a later statement binds - late binding - legitimately changes the outcome).
fn reeval_candidates(program: &[Stmt]) -> Vec<usize> {
    let assigned_by: Vec<BTreeSet<String>> = program.iter().map(|s| stmt_frame(s).possible).collect();
    let frees: Vec<BTreeSet<String>> = program.iter().map(|s| stmt_expr(s).map(|e| free_names(&e).0).unwrap_or_default()).collect();
    let mut out = vec![];
    for (i, s) in program.iter().enumerate() {
        if !is_frame_assignment_free(s) {
            continue;
        }
        let Stmt::Expr(e) = s else { continue };
        let (free, _) = free_names(e);
        let later: BTreeSet<&String> = assigned_by[i..].iter().flatten().collect();
        let earlier: BTreeSet<&String> = assigned_by[..i].iter().flatten().collect();
        if !free.iter().all(|n| !later.contains(n) || earlier.contains(n)) {
            continue;
        }
        // ... and no statement after it binds a name that an earlier statement already refers
        // to (a function reached from this statement may be waiting for that name)
        let mut late_bound_later = false;
        for k in (i + 1)..program.len() {
            for n in &assigned_by[k] {
                if frees[..k].iter().any(|f| f.contains(n)) {
                    late_bound_later = true;
                }
            }
        }
        if !late_bound_later {
            out.push(i);
        }
    }
    out
}

/// Noise for thread environments that keeps a thread inside built-ins for a long stretch: one
/// statement that evaluates a built-in-heavy expression a few dozen times.
fn hammer_item(rng: &mut Rng, k: usize) -> Item {
    let mut r2 = rng.fork();
    let mut g = PGen::new(&mut r2, "hm");
    g.allow_depth_probe = false;
    g.locals.push(("i".to_string(), T::Num));
    let t = *rng.pick(&[T::Str, T::Str, T::Num, T::LNum, T::Bool, T::Rec]);
    let body = g.expr(t, 2);
    let name = format!("{}h", ["u", "v", "w", "y"][k % 4]);
    Item::plain(Role::Noise, Stmt::Expr(assign(&name, bin("via", call(id("range"), vec![num(rng.range(8, 30))]), lam(&["i"], body)))))
}

fn gen_noise(rng: &mut Rng, k: usize, n: usize) -> Vec<Item> {
    let mut items = vec![];
    // same length as the program's names (p0, p1, ..): statements of noise and program then
    // often have identical source offsets, which matters to anything keyed by span
    let prefix = (*["u", "v", "w", "y"].get(k % 4).unwrap()).to_string();
    let mut r2 = rng.fork();
    let mut g = PGen::new(&mut r2, &prefix);
    g.allow_depth_probe = false;
    let prog = g.program(n, false);
    for (s, _) in prog {
        let mut it = Item::plain(Role::Noise, s);
        if rng.chance(1, 4) {
            it.inject_at = Some(1 + rng.below(30));
        }
        if rng.chance(1, 10) {
            it.depth0 = 1001 - rng.below(4) as usize;
        }
        items.push(it);
    }
    // special noise: failing statements and recursion into the depth limit
    if rng.chance(1, 2) {
        let pos = rng.usize_below(items.len() + 1);
        items.insert(pos, Item::plain(Role::Noise, Stmt::Expr(bin("+", num(1), st("x")))));
    }
    if rng.chance(1, 4) {
        // a run of failing calls: wrong argument counts, and an error raised deep inside a
        // recursion (whatever is tracked per call must be restored on the error path too)
        let pos = rng.usize_below(items.len() + 1);
        if rng.chance(1, 2) {
            for _ in 0..rng.range(3, 9) {
                items.insert(pos, Item::plain(Role::Noise, Stmt::Expr(call(lam(&["x"], id("x")), vec![]))));
            }
        } else {
            let f = format!("{}deep", prefix);
            let depth = rng.range(50, 700);
            let def = Stmt::Expr(assign(&f, lam(&["n"], cond(bin(".==", id("n"), num(0)), bin("+", num(1), st("x")), call(id(&f), vec![bin("-", id("n"), num(1))])))));
            items.insert(pos, Item::plain(Role::Noise, Stmt::Expr(call(id(&f), vec![num(depth)]))));
            items.insert(pos, Item::plain(Role::Noise, def));
        }
    }
    if rng.chance(1, 6) {
        let f = format!("{}rec", prefix);
        let def = Stmt::Expr(assign(&f, lam(&["n"], bin("+", num(1), call(id(&f), vec![bin("+", id("n"), num(1))])))));
        let callit = Stmt::Expr(call(id(&f), vec![num(0)]));
        let pos = rng.usize_below(items.len() + 1);
        items.insert(pos, Item::plain(Role::Noise, callit));
        items.insert(pos, Item::plain(Role::Noise, def));
    }
    items
}

fn interleave(rng: &mut Rng, mut a: Vec<Item>, mut b: Vec<Item>) -> Vec<Item> {
    let mut out = vec![];
    a.reverse();
    b.reverse();
    while !a.is_empty() || !b.is_empty() {
        let take_a = if a.is_empty() {
            false
        } else if b.is_empty() {
            true
        } else {
            rng.chance(a.len() as u64, (a.len() + b.len()) as u64)
        };
        out.push(if take_a { a.pop().unwrap() } else { b.pop().unwrap() });
    }
    out
}

pub fn p_items(program: &[Stmt]) -> Vec<Item> {
    program.iter().enumerate().map(|(i, s)| Item::plain(Role::P(i), s.clone())).collect()
}

pub fn gen_envs(rng: &mut Rng, program: &[Stmt], inputs_json: &str) -> Vec<Scenario> {
    let mut envs = vec![];
    let base = |kind: &str, threads: Vec<ThreadPlan>, prefs: Vec<u8>| Scenario {
        kind: kind.to_string(),
        inputs_json: inputs_json.to_string(),
        program: program.to_vec(),
        threads,
        prefs,
    };
    let prefs = |rng: &mut Rng| -> Vec<u8> { (0..251).map(|_| rng.below(8) as u8).collect() };
    // swarm: each run enables a random subset of environment kinds (at least two)
    let mut enabled: Vec<u32> = (0..9).filter(|_| rng.chance(1, 2)).collect();
    while enabled.len() < 2 {
        let k = rng.below(9) as u32;
        if !enabled.contains(&k) {
            enabled.push(k);
        }
    }
    for k in enabled {
        match k {
            0 => {
                // other hash seeds
                for _ in 0..rng.range(1, 3) {
                    envs.push(base("hash-seed", vec![ThreadPlan { hash_seed: rng.next_u64() | 1, clock: ClockScript::canonical(), sessions: vec![p_items(program)] }], vec![0]));
                }
            }
            1 => {
                // scripted clock (jumps, backwards, realtime before monotonic)
                let mut c = gen_clock(rng);
                if c == ClockScript::canonical() {
                    c.step = 977;
                    c.realtime_jumps.push((3, -7_200_000_000_000));
                }
                envs.push(base("clock", vec![ThreadPlan { hash_seed: 0, clock: c, sessions: vec![p_items(program)] }], vec![0]));
            }
            2 => {
                // unrelated earlier / interleaved evaluations on the same heap and environment
                let mut noise = vec![];
                for j in 0..rng.range(1, 3) as usize {
                    let nn = rng.range(1, 5) as usize;
                    noise.extend(gen_noise(rng, j, nn));
                }
                // re-evaluation of P's own earlier pure expressions, as noise
                let mut items = interleave(rng, p_items(program), noise);
                let bare: Vec<usize> = reeval_candidates(program);
                if !bare.is_empty() && rng.chance(2, 3) {
                    let i = *rng.pick(&bare);
                    if let Some(pos) = items.iter().position(|it| it.role == Role::P(i)) {
                        let at = pos + 1 + rng.usize_below(items.len() - pos);
                        items.insert(at, Item::plain(Role::Reeval(i), program[i].clone()));
                    }
                }
                envs.push(base("same-heap-noise", vec![ThreadPlan { hash_seed: rng.next_u64(), clock: ClockScript::canonical(), sessions: vec![items] }], vec![0]));
            }
            3 => {
                // same thread, separate sessions: thread-locals and statics persist, heaps do not
                let nn = rng.range(2, 6) as usize;
                let before = gen_noise(rng, 0, nn);
                let after = gen_noise(rng, 1, 2);
                envs.push(base(
                    "same-thread-sessions",
                    vec![ThreadPlan { hash_seed: rng.next_u64(), clock: gen_clock(rng), sessions: vec![before, p_items(program), after] }],
                    vec![0],
                ));
            }
            4 | 5 => {
                // threads under the scheduler; statement-level interleaving always, step-level
                // preemption at hook yield points in some runs (PCT-style: few change points)
                let nthreads = rng.range(2, 4) as usize;
                let mut threads = vec![];
                let mut p = p_items(program);
                let preempt = k == 5 || rng.chance(1, 2);
                if preempt {
                    let mut budget = rng.range(1, 6);
                    while budget > 0 {
                        // change points do not depend on any earlier execution (a point beyond
                        // the statement's last step simply never fires)
                        let i = rng.usize_below(p.len());
                        if rng.chance(1, 2) {
                            // early, or anywhere in a long statement (a recursion hundreds of
                            // calls deep has thousands of steps)
                            let at = match rng.below(3) {
                                0 => 1 + rng.below(8),
                                1 => 1 + rng.below(400),
                                _ => 1 + rng.below(6000),
                            };
                            p[i].yield_at.push(at);
                        } else {
                            // inside a built-in / comparison / stringification
                            let at = if rng.chance(1, 2) { 1 + rng.below(12) } else { 1 + rng.below(300) };
                            p[i].yield_heap_at.push(at);
                        }
                        budget -= 1;
                    }
                }
                threads.push(ThreadPlan { hash_seed: rng.next_u64(), clock: gen_clock(rng), sessions: vec![p] });
                for j in 1..nthreads {
                    let nn = rng.range(2, 6) as usize;
                    let mut noise = gen_noise(rng, j, nn);
                    if preempt {
                        for it in noise.iter_mut() {
                            if rng.chance(1, 3) {
                                it.yield_at.push(if rng.chance(2, 3) { 1 + rng.below(12) } else { 1 + rng.below(3000) });
                            }
                            if rng.chance(1, 3) {
                                it.yield_heap_at.push(1 + rng.below(40));
                            }
                        }
                    }
                    if rng.chance(1, 2) {
                        let pos = rng.usize_below(noise.len() + 1);
                        noise.insert(pos, hammer_item(rng, j));
                    }
                    // the same program on another thread at the same time, too
                    let sessions = if rng.chance(1, 4) {
                        vec![noise, program.iter().map(|s| Item::plain(Role::Noise, s.clone())).collect()]
                    } else {
                        vec![noise]
                    };
                    threads.push(ThreadPlan { hash_seed: rng.next_u64(), clock: gen_clock(rng), sessions });
                }
                // dense mode: every (or every n-th) hook point of every statement of every thread is
                // a context switch opportunity; the preference list then walks a fine-grained
                // interleaving (statements recursing hundreds of calls deep are left alone)
                let dense = preempt && rng.chance(1, 3);
                if dense {
                    let every = *rng.pick(&[1u64, 1, 2, 3]);
                    for t in threads.iter_mut() {
                        for s in t.sessions.iter_mut() {
                            for it in s.iter_mut() {
                                let deep = matches!(&it.stmt, Stmt::Expr(E::Assign(_, v)) if matches!(&**v, E::Call(_, a) if a.len() == 1 && matches!(&a[0], E::Num(n) if n.len() >= 3)));
                                if !deep {
                                    it.yield_every = every;
                                }
                            }
                        }
                    }
                }
                rng.shuffle(&mut threads);
                let pr = if dense {
                    // long runs of one thread with few switches (a step-by-step coin flip almost
                    // never lets one thread cross many steps while another is parked inside a
                    // short window)
                    let mean = *rng.pick(&[3u64, 8, 20, 50]);
                    let mut v: Vec<u8> = vec![];
                    while v.len() < 251 {
                        let who = rng.below(8) as u8;
                        let mut run = 1;
                        while !rng.chance(1, mean) && run < 200 {
                            run += 1;
                        }
                        for _ in 0..run {
                            v.push(who);
                        }
                    }
                    v.truncate(251);
                    v
                } else {
                    prefs(rng)
                };
                envs.push(base(if dense { "threads-dense" } else if preempt { "threads-preemptive" } else { "threads" }, threads, pr));
            }
            8 => {
                // the program alone, but in this long-lived process after everything it has
                // evaluated so far (the reference runs in a pristine process)
                envs.push(base("process-history", vec![ThreadPlan { hash_seed: 0, clock: ClockScript::canonical(), sessions: vec![p_items(program)] }], vec![0]));
            }
            6 => {
                // EvalTwice: consecutive and separated by noise
                let bare: Vec<usize> = reeval_candidates(program);
                if bare.is_empty() {
                    continue;
                }
                let i = *rng.pick(&bare);
                let mut items = p_items(program);
                let pos = items.iter().position(|it| it.role == Role::P(i)).unwrap();
                let mut insert = vec![Item::plain(Role::Reeval(i), program[i].clone())];
                if rng.chance(1, 2) {
                    let mut n = gen_noise(rng, 0, 2);
                    n.push(Item::plain(Role::Reeval(i), program[i].clone()));
                    insert.extend(n);
                }
                for (k2, it) in insert.into_iter().enumerate() {
                    items.insert(pos + 1 + k2, it);
                }
                envs.push(base("eval-twice", vec![ThreadPlan { hash_seed: rng.next_u64(), clock: ClockScript::canonical(), sessions: vec![items] }], vec![0]));
            }
            _ => {
                // LetAbstract: bind a strict sub-expression to a fresh name and use the name
                let cands: Vec<usize> = program
                    .iter()
                    .enumerate()
                    .filter(|(_, s)| match s {
                        Stmt::Expr(E::Assign(_, v)) => is_frame_assignment_free(&Stmt::Expr((**v).clone())),
                        Stmt::Expr(_) => is_frame_assignment_free(s),
                        Stmt::Output(_, Some(v)) => is_frame_assignment_free(&Stmt::Expr(v.clone())),
                        _ => false,
                    })
                    .map(|(i, _)| i)
                    .collect();
                if cands.is_empty() {
                    continue;
                }
                {
                    // a sub-expression that is written more than once in a statement, every
                    // occurrence replaced by one name (`[1, x] .== [1, x]` -> `t .== t`)
                    let mut found: Option<(usize, E, Vec<Vec<usize>>)> = None;
                    for &i in &cands {
                        let target = match &program[i] {
                            Stmt::Expr(E::Assign(_, v)) => (**v).clone(),
                            Stmt::Expr(e) => e.clone(),
                            Stmt::Output(_, Some(v)) => v.clone(),
                            _ => continue,
                        };
                        let mut paths = vec![];
                        strict_paths(&target, &mut vec![], &mut paths);
                        let big: Vec<&Vec<usize>> = paths.iter().filter(|p| size(get_path(&target, p)) >= 3).collect();
                        for (a, pa) in big.iter().enumerate() {
                            let same: Vec<Vec<usize>> = big.iter().skip(a + 1).filter(|pb| !pb.starts_with(pa) && get_path(&target, pb) == get_path(&target, pa)).map(|p| (*p).clone()).collect();
                            if !same.is_empty() {
                                let mut all = vec![(*pa).clone()];
                                all.extend(same);
                                found = Some((i, get_path(&target, pa).clone(), all));
                                break;
                            }
                        }
                        if found.is_some() {
                            break;
                        }
                    }
                    if let Some((i, sub, mut occ)) = found {
                        let (target, rebuild): (E, Box<dyn Fn(E) -> Stmt>) = match &program[i] {
                            Stmt::Expr(E::Assign(n, v)) => {
                                let n = n.clone();
                                ((**v).clone(), Box::new(move |e| Stmt::Expr(E::Assign(n.clone(), Box::new(e)))))
                            }
                            Stmt::Expr(e) => (e.clone(), Box::new(Stmt::Expr)),
                            Stmt::Output(n, Some(v)) => {
                                let n = n.clone();
                                (v.clone(), Box::new(move |e| Stmt::Output(n.clone(), Some(e))))
                            }
                            _ => unreachable!(),
                        };
                        occ.sort();
                        occ.reverse();
                        let fresh = format!("ld{}", i);
                        let mut replaced = target.clone();
                        for p in &occ {
                            if *get_path(&replaced, p) == sub {
                                replaced = replace_path(&replaced, p, id(&fresh));
                            }
                        }
                        let mut items = p_items(program);
                        let pos = items.iter().position(|it| it.role == Role::P(i)).unwrap();
                        items[pos].stmt = rebuild(replaced);
                        items.insert(pos, Item::plain(Role::Hoist(i), Stmt::Expr(assign(&fresh, sub))));
                        envs.push(base("let-abstract-duplicates", vec![ThreadPlan { hash_seed: 0, clock: ClockScript::canonical(), sessions: vec![items] }], vec![0]));
                    }
                }
                if rng.chance(1, 2) {
                    // every literal in a strict position of one statement bound to a name at once:
                    // behaviour keyed on the syntactic form of an operand (a fast path for
                    // literal arguments, folding at conversion time) shows as a difference
                    let i = *rng.pick(&cands);
                    let (target, rebuild): (E, Box<dyn Fn(E) -> Stmt>) = match &program[i] {
                        Stmt::Expr(E::Assign(n, v)) => {
                            let n = n.clone();
                            ((**v).clone(), Box::new(move |e| Stmt::Expr(E::Assign(n.clone(), Box::new(e)))))
                        }
                        Stmt::Expr(e) => (e.clone(), Box::new(Stmt::Expr)),
                        Stmt::Output(n, Some(v)) => {
                            let n = n.clone();
                            (v.clone(), Box::new(move |e| Stmt::Output(n.clone(), Some(e))))
                        }
                        _ => continue,
                    };
                    let mut paths = vec![];
                    strict_paths(&target, &mut vec![], &mut paths);
                    let lits: Vec<Vec<usize>> = paths.into_iter().filter(|p| matches!(get_path(&target, p), E::Num(_) | E::Str(_) | E::Bool(_))).collect();
                    if !lits.is_empty() {
                        let mut replaced = target.clone();
                        let mut hoists = vec![];
                        for (j, p) in lits.iter().enumerate().take(12) {
                            let name = format!("lk{}_{}", i, j);
                            hoists.push(Item::plain(Role::Hoist(i), Stmt::Expr(assign(&name, get_path(&target, p).clone()))));
                            replaced = replace_path(&replaced, p, id(&name));
                        }
                        let mut items = p_items(program);
                        let pos = items.iter().position(|it| it.role == Role::P(i)).unwrap();
                        items[pos].stmt = rebuild(replaced);
                        for (k2, h) in hoists.into_iter().enumerate() {
                            items.insert(pos + k2, h);
                        }
                        envs.push(base("let-abstract-literals", vec![ThreadPlan { hash_seed: 0, clock: ClockScript::canonical(), sessions: vec![items] }], vec![0]));
                    }
                }
                for _ in 0..rng.range(1, 3) {
                    let i = *rng.pick(&cands);
                    let (target, rebuild): (E, Box<dyn Fn(E) -> Stmt>) = match &program[i] {
                        Stmt::Expr(E::Assign(n, v)) => {
                            let n = n.clone();
                            ((**v).clone(), Box::new(move |e| Stmt::Expr(E::Assign(n.clone(), Box::new(e)))))
                        }
                        Stmt::Expr(e) => (e.clone(), Box::new(Stmt::Expr)),
                        Stmt::Output(n, Some(v)) => {
                            let n = n.clone();
                            (v.clone(), Box::new(move |e| Stmt::Output(n.clone(), Some(e))))
                        }
                        _ => continue,
                    };
                    let mut paths = vec![vec![]];
                    strict_paths(&target, &mut vec![], &mut paths);
                    // prefer non-trivial sub-expressions
                    let nontrivial: Vec<&Vec<usize>> = paths.iter().filter(|p| size(get_path(&target, p)) >= 2 || matches!(get_path(&target, p), E::Id(_))).collect();
                    // literals too: behaviour keyed on the syntactic form of an operand shows only
                    // when a literal is replaced by a name
                    let path = if !nontrivial.is_empty() && rng.chance(3, 5) { (*rng.pick(&nontrivial)).clone() } else { rng.pick(&paths).clone() };
                    let sub = get_path(&target, &path).clone();
                    if matches!(sub, E::Spread(_)) {
                        continue;
                    }
                    // `name = <lambda literal>` is the language's named-function definition
                    // (the function may call itself by that name): hoisting the literal out of
                    // its defining assignment changes the definition, not the environment.
                    if path.is_empty() && matches!(sub, E::Lam(..)) && !matches!(&program[i], Stmt::Expr(e) if !matches!(e, E::Assign(..))) {
                        continue;
                    }
                    let fresh = format!("lt{}", i);
                    let mut replaced = replace_path(&target, &path, id(&fresh));
                    // when the same sub-expression occurs more than once (in strict positions),
                    // sometimes every occurrence is replaced by the one name
                    if size(&sub) >= 2 && rng.chance(1, 2) {
                        let mut all = vec![];
                        strict_paths(&target, &mut vec![], &mut all);
                        let mut others: Vec<Vec<usize>> = all.into_iter().filter(|p| *p != path && !p.starts_with(&path) && !path.starts_with(p) && *get_path(&target, p) == sub).collect();
                        // replace deeper / later paths first so that earlier paths stay valid
                        others.sort();
                        others.reverse();
                        for p in others {
                            if *get_path(&replaced, &p) == sub {
                                replaced = replace_path(&replaced, &p, id(&fresh));
                            }
                        }
                    }
                    let mut items = p_items(program);
                    let pos = items.iter().position(|it| it.role == Role::P(i)).unwrap();
                    items[pos].stmt = rebuild(replaced);
                    items.insert(pos, Item::plain(Role::Hoist(i), Stmt::Expr(assign(&fresh, sub))));
                    envs.push(base("let-abstract", vec![ThreadPlan { hash_seed: if rng.chance(1, 2) { 0 } else { rng.next_u64() }, clock: ClockScript::canonical(), sessions: vec![items] }], vec![0]));
                }
            }
        }
    }
    envs
}

/// The inputs document of a program: plain data, edge values, and function-valued members
/// (`{"__blots_function": source}`) whose source is well-formed, truncated, written in another
/// language's syntax, not a function, or deeply nested - the conversion of inputs is code that
/// runs before the program and shares the process with every other evaluation.
pub fn gen_inputs(rng: &mut Rng) -> String {
    let f = |src: &str| format!("{{\"__blots_function\": {}}}", serde_json::Value::String(src.to_string()));
    match rng.below(8) {
        0 | 1 => "{}".to_string(),
        2 => "{\"k\": 3, \"xs\": [1, 2, 3]}".to_string(),
        3 => "{\"k\": \"s\", \"m\": {\"k\": 1}}".to_string(),
        4 => format!("{{\"k\": 3, \"fin\": {}, \"fs\": [{}, 2]}}", f("(x) => x + 1"), f("(a, b?) => [a, b]")),
        5 => {
            let bad = *rng.pick(&["(x) => ", "function (x) { return x + 1; }", "x => {", "", "1 + 1", "(x) => x +", "lambda x: x", "(x) => (x", "=> 3", "(x) => x where"]);
            format!("{{\"k\": 3, \"fin\": {}}}", f(bad))
        }
        6 => {
            let depth = rng.range(30, 120) as usize;
            let nested = format!("(x) => {}x{}", "(".repeat(depth), ")".repeat(depth));
            let unbalanced = format!("(x) => {}x", "[".repeat(depth));
            format!("{{\"k\": 3, \"fin\": {}, \"gin\": {}}}", f(&nested), f(&unbalanced))
        }
        _ => "{\"k\": null, \"xs\": [], \"big\": 9007199254740993, \"tiny\": 1e-320, \"neg\": -0.0, \"s\": \"\u{00fc} \\\"q\\\"\", \"deep\": {\"a\": {\"b\": {\"c\": [1, {\"d\": null}]}}}}".to_string(),
    }
}

pub fn gen_program(rng: &mut Rng) -> (Vec<Stmt>, Vec<String>, String) {
    let n = rng.range(3, 12) as usize;
    let mut r2 = rng.fork();
    let mut g = PGen::new(&mut r2, "p");
    let prog = g.program(n, true);
    let inputs = gen_inputs(rng);
    let (stmts, kinds): (Vec<Stmt>, Vec<String>) = prog.into_iter().unzip();
    (stmts, kinds, inputs)
}

// ---------------------------------------------------------------------------------------
// Shrinking, signature, replay
// ---------------------------------------------------------------------------------------

/// History a violation depends on: runs (of this batch's seed) executed earlier in the same
/// process. Empty when the scenario is self-contained.
#[derive(Clone, Debug, Default, PartialEq, Serialize, Deserialize)]
pub struct History {
    pub verif_seed: u64,
    pub runs: Vec<u64>,
}

thread_local! {
    static SHRINK_HISTORY: std::cell::RefCell<History> = std::cell::RefCell::new(History::default());
}

/// Reference in a pristine process; the scenario in a pristine process that first re-executes
/// the history (if any). Falls back to this process when no zygote is available.
pub fn judge_fresh(sc: &Scenario, hist: &History) -> Option<Viol> {
    let refsc = reference_scenario(&sc.program, &sc.inputs_json);
    let reference = pristine(&History::default(), &[refsc.clone()]).and_then(|mut v| v.pop()).unwrap_or_else(|| execute(&refsc));
    let ex = pristine(hist, &[sc.clone()]).and_then(|mut v| v.pop()).unwrap_or_else(|| {
        for r in &hist.runs {
            replay_history_run(hist.verif_seed, *r);
        }
        execute(sc)
    });
    judge(sc, &ex, &reference)
}

fn violates(sc: &Scenario, clause: &str) -> bool {
    let hist = SHRINK_HISTORY.with(|h| h.borrow().clone());
    matches!(judge_fresh(sc, &hist), Some(v) if v.clause == clause)
}

/// Execute scenarios in a pristine process (after re-executing `hist` there).
pub fn pristine(hist: &History, scs: &[Scenario]) -> Option<Vec<Exec>> {
    if !crate::zygote::available() {
        return None;
    }
    let req = json!({"kind": "c02", "history": hist, "scenarios": scs});
    let resp = crate::zygote::request(&req.to_string())?;
    serde_json::from_str::<Vec<Exec>>(&resp).ok()
}

/// Runs inside the pristine child.
pub fn pristine_handler(req: &serde_json::Value) -> String {
    let hist: History = serde_json::from_value(req["history"].clone()).unwrap_or_default();
    let scs: Vec<Scenario> = serde_json::from_value(req["scenarios"].clone()).unwrap_or_default();
    for r in &hist.runs {
        replay_history_run(hist.verif_seed, *r);
    }
    let out: Vec<Exec> = scs.iter().map(execute).collect();
    serde_json::to_string(&out).unwrap_or_default()
}

/// Re-execute, in this process, exactly what run `run` executed in its worker process.
pub fn replay_history_run(seed: u64, run: u64) {
    let mut rng = Rng::derive(seed, "c02", run);
    let (program, _kinds, inputs) = gen_program(&mut rng);
    let envs = gen_envs(&mut rng, &program, &inputs);
    for sc in envs {
        let _ = execute(&sc);
    }
}

/// Remove program statement `i` everywhere (program list, P items, roles renumbered).
fn drop_p(sc: &Scenario, i: usize) -> Scenario {
    let mut s = sc.clone();
    s.program.remove(i);
    for t in s.threads.iter_mut() {
        for sess in t.sessions.iter_mut() {
            sess.retain(|it| !matches!(&it.role, Role::P(j) | Role::Reeval(j) | Role::Hoist(j) if *j == i));
            for it in sess.iter_mut() {
                match &mut it.role {
                    Role::P(j) | Role::Reeval(j) | Role::Hoist(j) => {
                        if *j > i {
                            *j -= 1;
                        }
                    }
                    Role::Noise => {}
                }
            }
        }
    }
    s
}

pub fn shrink(sc: &Scenario, clause: &str) -> Scenario {
    let mut cur = sc.clone();
    let mut budget = 600i32;
    let mut try_c = |c: Scenario, cur: &mut Scenario, budget: &mut i32| -> bool {
        if *budget <= 0 || c == *cur {
            return false;
        }
        *budget -= 1;
        if violates(&c, clause) {
            *cur = c;
            true
        } else {
            false
        }
    };
    loop {
        let mut progress = false;
        // drop whole noise threads
        let mut ti = 0;
        while ti < cur.threads.len() {
            let has_p = cur.threads[ti].sessions.iter().flatten().any(|it| matches!(it.role, Role::P(_)));
            if !has_p && cur.threads.len() > 1 {
                let mut c = cur.clone();
                c.threads.remove(ti);
                if try_c(c, &mut cur, &mut budget) {
                    progress = true;
                    continue;
                }
            }
            ti += 1;
        }
        // drop noise sessions and noise items
        for ti in 0..cur.threads.len() {
            let mut si = 0;
            while si < cur.threads[ti].sessions.len() {
                let has_p = cur.threads[ti].sessions[si].iter().any(|it| matches!(it.role, Role::P(_)));
                if !has_p {
                    let mut c = cur.clone();
                    c.threads[ti].sessions.remove(si);
                    if try_c(c, &mut cur, &mut budget) {
                        progress = true;
                        continue;
                    }
                }
                si += 1;
            }
            for si in 0..cur.threads[ti].sessions.len() {
                let mut ii = cur.threads[ti].sessions[si].len();
                while ii > 0 {
                    ii -= 1;
                    if matches!(cur.threads[ti].sessions[si][ii].role, Role::Noise) {
                        let mut c = cur.clone();
                        c.threads[ti].sessions[si].remove(ii);
                        if try_c(c, &mut cur, &mut budget) {
                            progress = true;
                        }
                    }
                }
            }
        }
        // drop program statements (from the end)
        let mut i = cur.program.len();
        while i > 0 {
            i -= 1;
            if cur.program.len() <= 1 {
                break;
            }
            let c = drop_p(&cur, i);
            if try_c(c, &mut cur, &mut budget) {
                progress = true;
            }
        }
        // drop faults, preemption points; canonical hash seeds and clocks; sequential schedule
        {
            let mut c = cur.clone();
            for t in c.threads.iter_mut() {
                for s in t.sessions.iter_mut() {
                    for it in s.iter_mut() {
                        it.inject_at = None;
                        it.depth0 = 0;
                    }
                }
            }
            progress |= try_c(c, &mut cur, &mut budget);
            let mut c = cur.clone();
            for t in c.threads.iter_mut() {
                for s in t.sessions.iter_mut() {
                    for it in s.iter_mut() {
                        it.yield_at.clear();
                        it.yield_heap_at.clear();
                        it.yield_every = 0;
                    }
                }
            }
            progress |= try_c(c, &mut cur, &mut budget);
            let mut c = cur.clone();
            c.prefs = vec![0];
            progress |= try_c(c, &mut cur, &mut budget);
            for ti in 0..cur.threads.len() {
                let mut c = cur.clone();
                c.threads[ti].hash_seed = 0;
                progress |= try_c(c, &mut cur, &mut budget);
                let mut c = cur.clone();
                c.threads[ti].clock = ClockScript::canonical();
                progress |= try_c(c, &mut cur, &mut budget);
            }
            let mut c = cur.clone();
            c.inputs_json = "{}".into();
            progress |= try_c(c, &mut cur, &mut budget);
        }
        // simplify program expressions (same replacement in the program and in its P item;
        // only when the environment holds the statement unmodified, i.e. not let-abstracted)
        for i in 0..cur.program.len() {
            let mut improved = true;
            while improved && budget > 0 {
                improved = false;
                let cands: Vec<Stmt> = match &cur.program[i] {
                    Stmt::Expr(e) => shrink_candidates(e).into_iter().map(Stmt::Expr).collect(),
                    Stmt::Output(n, Some(e)) => shrink_candidates(e).into_iter().map(|x| Stmt::Output(n.clone(), Some(x))).collect(),
                    _ => vec![],
                };
                let cur_size = stmt_expr(&cur.program[i]).map(|e| size(&e)).unwrap_or(0);
                for cand in cands.into_iter().take(60) {
                    if stmt_expr(&cand).map(|e| size(&e)).unwrap_or(0) >= cur_size {
                        continue;
                    }
                    let mut c = cur.clone();
                    let old = c.program[i].clone();
                    c.program[i] = cand.clone();
                    let mut ok = true;
                    for t in c.threads.iter_mut() {
                        for s in t.sessions.iter_mut() {
                            for it in s.iter_mut() {
                                if matches!(&it.role, Role::P(j) | Role::Reeval(j) if *j == i) {
                                    if it.stmt == old {
                                        it.stmt = cand.clone();
                                    } else {
                                        ok = false;
                                    }
                                }
                            }
                        }
                    }
                    if ok && try_c(c, &mut cur, &mut budget) {
                        improved = true;
                        progress = true;
                        break;
                    }
                }
            }
        }
        if !progress || budget <= 0 {
            break;
        }
    }
    cur
}

pub fn signature(sc: &Scenario, v: &Viol) -> String {
    format!("{}|{}", v.clause, sc.kind)
}

pub fn replay_doc(sc: &Scenario, v: &Viol, ex: &Exec, seed: u64, run: u64, hist: &History) -> serde_json::Value {
    json!({
        "property": "C02",
        "engine": "c02",
        "history": hist,
        "history_note": "runs of the same VERIF_SEED executed earlier in the same process; they are re-executed before the scenario on replay (empty = the scenario is self-contained)",
        "verif_seed": seed,
        "run": run,
        "scenario": sc,
        "program_source": sc.program.iter().map(show_stmt).collect::<Vec<_>>(),
        "environment_source": sc.threads.iter().map(|t| t.sessions.iter().map(|s| s.iter().map(|it| format!("{:?}: {}", it.role, show_stmt(&it.stmt))).collect::<Vec<_>>()).collect::<Vec<_>>()).collect::<Vec<_>>(),
        "violation": { "clause": v.clause, "detail": v.detail },
        "signature": signature(sc, v),
        "schedule_decisions": ex.decisions,
        "history_hash": format!("{:016x}", ex.hash),
    })
}

pub fn replay(path: &str) -> i32 {
    let Ok(s) = std::fs::read_to_string(path) else {
        eprintln!("HARNESS-ERROR: cannot read {}", path);
        return 2;
    };
    let Ok(doc) = serde_json::from_str::<serde_json::Value>(&s) else {
        eprintln!("HARNESS-ERROR: {} is not JSON", path);
        return 2;
    };
    let sc: Scenario = match serde_json::from_value(doc["scenario"].clone()) {
        Ok(s) => s,
        Err(e) => {
            eprintln!("HARNESS-ERROR: bad scenario in {}: {}", path, e);
            return 2;
        }
    };
    println!("environment kind: {}", sc.kind);
    for (i, s) in sc.program.iter().enumerate() {
        println!("  P[{}] {}", i, show_stmt(s));
    }
    let hist: History = serde_json::from_value(doc["history"].clone()).unwrap_or_default();
    let refsc = reference_scenario(&sc.program, &sc.inputs_json);
    let reference = pristine(&History::default(), &[refsc.clone()]).and_then(|mut v| v.pop()).unwrap_or_else(|| execute(&refsc));
    if !hist.runs.is_empty() {
        println!("  history: {} earlier run(s) of VERIF_SEED={} re-executed first: {:?}", hist.runs.len(), hist.verif_seed, hist.runs);
        for r in &hist.runs {
            replay_history_run(hist.verif_seed, *r);
        }
    }
    let ex = execute(&sc);
    for (ti, t) in ex.threads.iter().enumerate() {
        for (k, it) in t.items.iter().enumerate() {
            let src = sc.threads[ti].sessions.iter().flatten().nth(k).map(|i| show_stmt(&i.stmt)).unwrap_or_default();
            println!("  thread {} {:?} `{}` -> {} {:?} steps={} yields={}", ti, it.role, src, it.status.short(), it.canon, it.steps, it.yields);
        }
    }
    println!("  schedule decisions: {:?}", ex.decisions);
    let want = doc["history_hash"].as_str().unwrap_or("");
    let got = format!("{:016x}", ex.hash);
    if !want.is_empty() && want != got {
        eprintln!("HARNESS-ERROR: history hash differs on replay: recorded {} got {}", want, got);
        return 2;
    }
    match judge(&sc, &ex, &reference) {
        Some(v) => {
            println!("VIOLATION property=C02 replay={}", path);
            println!("  clause={} detail={}", v.clause, v.detail);
            1
        }
        None => {
            println!("no violation on replay (history hash {})", got);
            0
        }
    }
}

// ---------------------------------------------------------------------------------------
// Batch
// ---------------------------------------------------------------------------------------

#[derive(Default, Serialize, Deserialize)]
pub struct Batch {
    pub c: Counters,
    /// (run, scenario, violation, runs executed earlier in the same process)
    pub violations: Vec<(u64, Scenario, Viol, Vec<u64>)>,
    pub samples: Vec<(u64, serde_json::Value)>,
    pub run_hashes: BTreeMap<u64, u64>,
    pub clock_ns: i128,
}
impl Agg for Batch {
    fn merge(&mut self, o: Self) {
        self.c.merge(o.c);
        self.violations.extend(o.violations);
        self.samples.extend(o.samples);
        self.run_hashes.extend(o.run_hashes);
        self.clock_ns += o.clock_ns;
    }
}

fn program_shape(kinds: &[String]) -> String {
    let mut k: Vec<&str> = kinds.iter().map(|s| s.as_str()).collect();
    k.dedup();
    k.join(",")
}

/// Runs this process has executed so far, in order (meaningful with one worker per process,
/// which is how batches are sharded).
static PROCESS_RUNS: std::sync::Mutex<Vec<u64>> = std::sync::Mutex::new(Vec::new());

pub fn run_one(seed: u64, run: u64, agg: &mut Batch, keep_hashes: bool) {
    let prior: Vec<u64> = {
        let mut g = PROCESS_RUNS.lock().unwrap();
        let p = g.clone();
        g.push(run);
        p
    };
    let mut rng = Rng::derive(seed, "c02", run);
    let (program, kinds, inputs) = gen_program(&mut rng);
    let envs = gen_envs(&mut rng, &program, &inputs);
    let refsc = reference_scenario(&program, &inputs);
    // the reference runs in a pristine process (nothing has been evaluated there, ever)
    let reference = match pristine(&History::default(), &[refsc.clone()]).and_then(|mut v| v.pop()) {
        Some(r) => {
            agg.c.inc("reference_in_pristine_process");
            r
        }
        None => {
            agg.c.inc("reference_in_worker_process");
            execute(&refsc)
        }
    };
    let mut h = reference.hash;
    agg.c.inc("programs");
    agg.c.inc("executions");
    agg.c.add("statements", program.len() as u64);
    let rp = p_results(&reference);
    for r in rp.values() {
        agg.c.inc(&format!("ref_status:{}", r.status.short()));
        if r.status == Status::Panic {
            agg.c.inc("sut_panics");
        }
        if r.depth_error {
            agg.c.inc("rare:depth_probe_hit_limit");
        }
    }
    for (i, k) in kinds.iter().enumerate() {
        if k == "depth-probe-call" {
            if let Some(r) = rp.get(&i) {
                if r.status == Status::Ok {
                    agg.c.inc("rare:depth_probe_completed_near_limit");
                }
            }
        }
    }
    if run < 2 {
        agg.samples.push((
            run,
            json!({
                "run": run,
                "program": program.iter().map(show_stmt).collect::<Vec<_>>(),
                "reference": (0..program.len()).map(|i| rp.get(&i).map(|r| format!("{} {}", r.status.short(), r.canon.clone().unwrap_or_default().chars().take(80).collect::<String>())).unwrap_or_default()).collect::<Vec<_>>(),
                "environments": envs.iter().map(|e| e.kind.clone()).collect::<Vec<_>>(),
            }),
        ));
    }
    for sc in envs {
        let ex = execute(&sc);
        h = mix(h, ex.hash);
        agg.c.inc("executions");
        agg.c.inc(&format!("env:{}", sc.kind));
        agg.clock_ns += ex.clock_ns as i128;
        let mut nontrivial = false;
        for t in &ex.threads {
            if t.noise_between_p > 0 {
                nontrivial = true;
            }
            for it in &t.items {
                if it.fired {
                    agg.c.inc("fault_fired:injected_step_in_noise");
                }
                if it.depth_error && matches!(it.role, Role::Noise) {
                    agg.c.inc("fault_fired:call_depth_in_noise");
                }
                if it.yields > 0 {
                    agg.c.add("fault_fired:preemption_yield", it.yields);
                    nontrivial = true;
                    if matches!(it.role, Role::P(_)) {
                        agg.c.inc("rare:preempted_inside_P_statement");
                    }
                }
            }
        }
        if ex.decisions.last() == Some(&255) {
            agg.c.inc("scheduler_released_stuck_run");
        }
        if sc.threads.len() > 1 {
            agg.c.distinct("interleavings", &format!("{:?}", ex.decisions));
            if ex.decisions.windows(2).any(|w| w[0] != w[1]) {
                nontrivial = true;
            }
        }
        for t in &sc.threads {
            agg.c.distinct("hash_seeds", &t.hash_seed.to_string());
        }
        if matches!(sc.kind.as_str(), "hash-seed" | "clock" | "let-abstract" | "let-abstract-literals" | "let-abstract-duplicates" | "eval-twice") || (sc.kind == "process-history" && !prior.is_empty()) {
            nontrivial = true;
        }
        if nontrivial {
            agg.c.distinct("nontrivial_pairs", &format!("{}|{}", program_shape(&kinds), sc.kind));
        }
        if let Some(v) = judge(&sc, &ex, &reference) {
            if agg.violations.len() < 24 {
                agg.violations.push((run, sc.clone(), v, prior.clone()));
            } else {
                agg.c.inc("violations_not_kept");
            }
        }
    }
    if keep_hashes {
        agg.run_hashes.insert(run, h);
    }
}

pub fn fixed_corpus() -> Vec<(String, Scenario)> {
    // F2 seen through C02's clause 3: let-abstracting `p1[0]` (binding the function reached
    // through a handle to a fresh name) must not change what `p1[0](..)` does later under a
    // shadow of the function's own name.
    let f_def = Stmt::Expr(assign("p0", lam(&["n"], cond(bin(".<=", id("n"), num(0)), st("done"), call(id("p0"), vec![bin("-", id("n"), num(1))])))));
    let handle = Stmt::Expr(assign("p1", E::List(vec![id("p0")])));
    let direct = Stmt::Expr(assign("p2", call(idx(id("p1"), num(0)), vec![num(2)])));
    let shadowed = Stmt::Expr(assign("p3", doblk(vec![assign("p0", num(5))], call(idx(id("p1"), num(0)), vec![num(2)]))));
    let program = vec![f_def, handle, direct, shadowed];
    let mut items = p_items(&program);
    items[2].stmt = Stmt::Expr(assign("p2", call(id("lt2"), vec![num(2)])));
    items.insert(2, Item::plain(Role::Hoist(2), Stmt::Expr(assign("lt2", idx(id("p1"), num(0))))));
    let mut v = vec![(
        "F2-let-abstract-handle".to_string(),
        Scenario {
            kind: "let-abstract".into(),
            inputs_json: "{}".into(),
            program,
            threads: vec![ThreadPlan { hash_seed: 0, clock: ClockScript::canonical(), sessions: vec![items] }],
            prefs: vec![0],
        },
    )];
    let dir = format!("{}/regressions", verif_dir());
    if let Ok(rd) = std::fs::read_dir(&dir) {
        let mut files: Vec<_> = rd.filter_map(|e| e.ok()).map(|e| e.path()).collect();
        files.sort();
        for p in files {
            let name = p.file_name().unwrap().to_string_lossy().to_string();
            if !name.starts_with("C02-") || !name.ends_with(".json") {
                continue;
            }
            let Ok(txt) = std::fs::read_to_string(&p) else { continue };
            let Ok(doc) = serde_json::from_str::<serde_json::Value>(&txt) else {
                eprintln!("HARNESS-ERROR: {} is not JSON", p.display());
                std::process::exit(2);
            };
            if doc["engine"].as_str() != Some("c02") {
                continue;
            }
            match serde_json::from_value::<Scenario>(doc["scenario"].clone()) {
                Ok(sc) => v.push((name, sc)),
                Err(e) => {
                    eprintln!("HARNESS-ERROR: bad scenario in {}: {}", p.display(), e);
                    std::process::exit(2);
                }
            }
        }
    }
    v
}


/// Delta-debug the list of earlier runs a violation depends on.
fn minimise_history(sc: &Scenario, clause: &str, hist: &History) -> History {
    let still = |runs: &[u64]| -> bool {
        let h = History { verif_seed: hist.verif_seed, runs: runs.to_vec() };
        matches!(judge_fresh(sc, &h), Some(v) if v.clause == clause)
    };
    let mut cur = hist.runs.clone();
    let mut chunk = (cur.len() / 2).max(1);
    let mut budget = 120;
    while chunk >= 1 && budget > 0 {
        let mut i = 0;
        let mut progress = false;
        while i < cur.len() && budget > 0 {
            let mut cand = cur.clone();
            let end = (i + chunk).min(cand.len());
            cand.drain(i..end);
            budget -= 1;
            if still(&cand) {
                cur = cand;
                progress = true;
            } else {
                i += chunk;
            }
        }
        if chunk == 1 && !progress {
            break;
        }
        chunk = if progress { chunk } else { chunk / 2 };
        if chunk == 0 {
            break;
        }
    }
    History { verif_seed: hist.verif_seed, runs: cur }
}

pub struct C02Result {
    pub violations: Vec<Violation>,
    pub agg: Batch,
    pub wall: f64,
}

pub fn run_batch(programs: u64) -> C02Result {
    let seed = verif_seed();
    let t0 = crate::seams::real_monotonic_ns();
    let keep = std::env::var("VERIF_HASHES").is_ok();
    let mut agg: Batch = run_sharded("c02", programs, move |idx, w| run_indices(idx, w, move |i, a: &mut Batch| run_one(seed, i, a, keep)));
    let mut viols = std::mem::take(&mut agg.violations);
    viols.sort_by_key(|v| v.0);
    let mut corpus_viols = vec![];
    let corpus = fixed_corpus();
    for (k, (name, sc)) in corpus.iter().enumerate() {
        if let Some(v) = judge_fresh(sc, &History::default()) {
            println!("corpus scenario {} violates: {} ({})", name, v.clause, v.detail);
            corpus_viols.push((1_000_000_000 + k as u64, sc.clone(), v, vec![]));
        }
    }
    println!("c02: fixed corpus: {} scenarios, {} violating", corpus.len(), corpus_viols.len());
    corpus_viols.extend(viols);
    let mut out = vec![];
    let mut seen = BTreeSet::new();
    for (run, sc, v, prior) in corpus_viols.iter() {
        if !seen.insert(format!("{}|{}", v.clause, sc.kind)) || out.len() >= 8 {
            continue;
        }
        // 1. is the scenario self-contained (violates in a pristine process, no history)?
        let mut hist = History { verif_seed: seed, runs: vec![] };
        let mut reproducible = true;
        if !matches!(judge_fresh(sc, &hist), Some(ref w) if w.clause == v.clause) {
            // 2. it depends on what this process evaluated earlier: re-execute those runs first
            hist.runs = prior.clone();
            if matches!(judge_fresh(sc, &hist), Some(ref w) if w.clause == v.clause) {
                hist = minimise_history(sc, &v.clause, &hist);
            } else {
                reproducible = false;
            }
        }
        let (min, mv, ex) = if reproducible {
            SHRINK_HISTORY.with(|h| *h.borrow_mut() = hist.clone());
            let min = shrink(sc, &v.clause);
            SHRINK_HISTORY.with(|h| *h.borrow_mut() = History::default());
            let ex = pristine(&hist, &[min.clone()]).and_then(|mut x| x.pop()).unwrap_or_else(|| execute(&min));
            let mv = judge_fresh(&min, &hist).unwrap_or_else(|| v.clone());
            (min, mv, ex)
        } else {
            let ex = execute(sc);
            let mut mv = v.clone();
            mv.detail = format!("{} [seen in the worker process after {} earlier runs; not reproduced in a fresh process from the recorded history]", mv.detail, prior.len());
            (sc.clone(), mv, ex)
        };
        let sig = signature(&min, &mv);
        let name = format!("C02-{}-{}-{:08x}", seed, run, fnv64(format!("{}{}", sig, mv.detail).as_bytes()) as u32);
        let mut doc = replay_doc(&min, &mv, &ex, seed, *run, &hist);
        if !hist.runs.is_empty() || !reproducible {
            // the recorded history hash is of the pristine execution; with history the replay
            // process state differs by construction, so the hash is informational only
            doc["history_hash"] = json!("");
        }
        let path = write_replay(&name, &doc);
        out.push(Violation { property: "C02".into(), clause: mv.clause.clone(), detail: mv.detail.clone(), signature: sig, run: *run, replay: Some(path) });
    }
    if keep {
        let h: Vec<String> = agg.run_hashes.iter().map(|(k, v)| format!("{}:{:016x}", k, v)).collect();
        let _ = std::fs::write(std::env::var("VERIF_HASHES").unwrap(), h.join("\n") + "\n");
    }
    let wall = (crate::seams::real_monotonic_ns() - t0) as f64 / 1e9;
    C02Result { violations: out, agg, wall }
}

pub fn shard_main(n: u64, k: u64, s: u64, out: &str) {
    let seed = verif_seed();
    let keep = std::env::var("VERIF_HASHES").is_ok();
    let a: Batch = run_indices(shard_indices(n, k, s), workers(), move |i, a: &mut Batch| run_one(seed, i, a, keep));
    write_shard_result(out, &a);
}

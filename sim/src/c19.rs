//! Engine c19 — the CLI contract, decided by running the real `blots` binary under the syscall
//! simulator: every single-fault position of sampled scenarios is enumerated, benign faults
//! (short transfers, EINTR, chunking, hash seed, clock, ASLR) must not change anything, hard
//! faults may make the run fail but never lie.

use crate::c19model::*;
use crate::cli::*;
use crate::common::*;
use crate::prng::{Rng, fnv64};
use serde::{Deserialize, Serialize};
use serde_json::json;
use std::collections::BTreeSet;

pub const EINTR: i32 = 4;
pub const EIO: i32 = 5;
pub const EACCES: i32 = 13;
pub const EISDIR: i32 = 21;
pub const EMFILE: i32 = 24;
pub const ENOSPC: i32 = 28;
pub const EPIPE: i32 = 32;
pub const ENOENT: i32 = 2;
pub const EAGAIN: i32 = 11;

#[derive(Clone, Debug, PartialEq, Serialize, Deserialize)]
pub enum Mode {
    File,
    Inline,
    EvalStdin,
}

#[derive(Clone, Debug, PartialEq, Serialize, Deserialize)]
pub enum OutDest {
    Stdout,
    /// -o out.json (fresh)
    File,
    /// -o out.json, pre-seeded with stale content
    FileStale(String),
    /// -o missing_dir/out.json (real ENOENT)
    FileMissingDir,
    /// -o adir (a directory: real EISDIR)
    FileIsDir,
    /// -o /dev/full (real ENOSPC on write)
    FileDevFull,
    /// -o names the script file itself (file mode; elsewhere as `File`)
    FileIsScript,
    /// -o names the file stdin is redirected from (stdin a regular file; elsewhere as `File`)
    FileIsStdin,
}

#[derive(Clone, Debug, PartialEq, Serialize, Deserialize)]
pub struct Scenario {
    pub script: Vec<CStmt>,
    pub mode: Mode,
    pub out: OutDest,
    /// stdin *inputs* document (ignored in EvalStdin mode, where stdin carries the script)
    pub stdin: StdinKind,
    pub stdout: StdoutKind,
    pub flags: Vec<String>,
    pub plan: Plan,
    pub aslr_off: bool,
    pub long_flags: bool,
    /// 0 = LF, trailing newline; 1 = CRLF; 2 = no trailing newline; 3 = blank lines and trailing spaces
    #[serde(default)]
    pub script_style: u8,
    /// 0 = `-i v` / `--input v`; 1 = `--input=v`
    #[serde(default)]
    pub flag_eq: bool,
    /// script argument before the flags
    #[serde(default)]
    pub script_first: bool,
    /// 0 = prog.blots / out.json; 1 = names with a space; 2 = in a sub-directory; 3 = non-ASCII names
    #[serde(default)]
    pub path_style: u8,
    /// a byte that is not valid UTF-8 (0xFF) inserted at this offset (mod length) of the script
    /// bytes (file and -e modes; an inline script is an argument and stays as it is)
    #[serde(default)]
    pub script_bad_byte: Option<u32>,
    /// the same for the stdin inputs document
    #[serde(default)]
    pub stdin_bad_byte: Option<u32>,
}

#[derive(Clone, Debug)]
pub struct Viol {
    pub clause: String,
    pub detail: String,
}

// ---------------------------------------------------------------------------------------
// Generators
// ---------------------------------------------------------------------------------------

const KEYS: &[&str] = &["a", "b", "k", "x1", "iffy", "nullable", "value_1", "value_2", "my key", "", "ключ", "Z_9", "android", "outputs", "inputs", "value_3", "p", "q"];

fn gen_jv(rng: &mut Rng, depth: u32) -> JV {
    match rng.below(if depth >= 2 { 5 } else { 8 }) {
        0 => JV::Null,
        1 => JV::Bool(rng.chance(1, 2)),
        2 => JV::Num(rng.range(-50, 1000) as f64),
        3 => JV::Num(*rng.pick(&[0.5, 1.25, -3.75, 1e6, 123456.789, 0.001, -0.0, 9007199254740992.0, 1e-7, 123456789012345.0])),
        4 if rng.chance(1, 3) => JV::Str((*rng.pick(&["a;b", "x // y", "#k", "do { return 1 }", "a,b", "-o", "--input", "1 + 1", "output z = 1", "[1, 2]", "a=b", "tab\tsemi; colon:", "$HOME", "%s", "*"])).to_string()),
        4 => JV::Str((*rng.pick(&["", "x", "héllo", "a b", "q\\z", "line", "12", "true", "ü", "say \"hi\"", "line1\nline2", "tab\there", "it's", "😀 emoji", "{\"not\":\"json\"}", "cr\r\nlf", "bare\rcr", "\nleading", "trailing\n", "blank\n\nline", " padded ", "two\r\n\r\nbreaks"])).to_string()),
        5 => JV::List((0..rng.below(4)).map(|_| gen_jv(rng, depth + 1)).collect()),
        _ => {
            let mut f = vec![];
            for _ in 0..rng.below(4) {
                let k = *rng.pick(KEYS);
                JV::rec_insert(&mut f, k, gen_jv(rng, depth + 1));
            }
            JV::Rec(f)
        }
    }
}

fn render_doc(rng: &mut Rng, v: &JV) -> String {
    let base = v.to_json();
    match rng.below(6) {
        5 => {
            // pretty-printed over several lines
            match serde_json::from_str::<serde_json::Value>(&base) {
                Ok(v) => serde_json::to_string_pretty(&v).unwrap_or(base),
                Err(_) => base,
            }
        }
        0 => format!("  {}\n", base),
        1 => format!("{}\n", base),
        2 => {
            // duplicate key within one object (last wins)
            if let JV::Rec(f) = v {
                if let Some((k, val)) = f.first() {
                    let dup = format!("{}:{},", serde_json::to_string(k).unwrap(), JV::Num(-1.0).to_json());
                    let _ = val;
                    return format!("{{{}{}", dup, &base[1..]);
                }
            }
            base
        }
        _ => base,
    }
}

fn gen_large_doc(rng: &mut Rng) -> String {
    // larger than a pipe buffer (64 KiB) and than any plausible fixed read buffer
    let n = rng.range(70_000, 180_000) as usize;
    let filler: String = (0..n).map(|i| (b'a' + (i % 23) as u8) as char).collect();
    format!("{{\"big\":\"{}\",\"a\":{},\"k\":[1,2,3]}}", filler, rng.range(0, 99))
}

fn gen_input_doc(rng: &mut Rng) -> String {
    match rng.below(10) {
        0 => (*rng.pick(&["{\"a\":", "[1,2", "nope", "{'a':1}", "{\"a\":1}}", "{\"a\" 1}"])).to_string(),
        1 | 2 | 3 => {
            // non-object
            let v = match rng.below(8) {
                0 => JV::Num(rng.range(0, 99) as f64),
                1 => JV::Str("s".into()),
                2 => JV::List(vec![JV::Num(1.0), JV::Num(2.0)]),
                3 => JV::Null,
                4 => JV::Bool(rng.chance(1, 2)),
                // a string whose content looks like a document of its own: still one string
                5 => JV::Str((*rng.pick(&["{}", "[1, 2]", "{\"a\":1}", " {\"k\": 2} ", "[]", "null", "5", "\"x\"", "true", "{\"value_1\": 9}", "1e3"])).to_string()),
                // any value that is not an object at the top: scalars, strings, (nested) lists
                _ => loop {
                    let v = gen_jv(rng, 0);
                    if !matches!(v, JV::Rec(_)) {
                        break v;
                    }
                },
            };
            render_doc(rng, &v)
        }
        _ => {
            let mut f = vec![];
            for _ in 0..rng.range(0, 4) {
                let k = *rng.pick(KEYS);
                JV::rec_insert(&mut f, k, gen_jv(rng, 0));
            }
            // sometimes function-valued members: mostly self-contained, sometimes reading a name
            // that is bound nowhere (declaring such a value as an output must fail); alone, in
            // pairs whose bodies have the same shape, nested in a list
            if rng.chance(1, 4) {
                let fobj = |src: &str| JV::Rec(vec![("__blots_function".to_string(), JV::Str(src.to_string()))]);
                let i = rng.usize_below(crate::c19model::FN_OK.len());
                let ok = fobj(crate::c19model::FN_OK[i]);
                let bad = fobj(crate::c19model::FN_BAD[i]);
                let k1 = *rng.pick(&["a", "k", "iffy", "p"]);
                let k2 = *rng.pick(&["b", "x1", "q", "android"]);
                match rng.below(5) {
                    0 => JV::rec_insert(&mut f, k1, ok),
                    1 => {
                        JV::rec_insert(&mut f, k1, ok);
                        JV::rec_insert(&mut f, k2, bad);
                    }
                    2 => JV::rec_insert(&mut f, k1, JV::List(vec![ok, bad])),
                    3 => JV::rec_insert(&mut f, k2, bad),
                    _ => JV::rec_insert(&mut f, k1, JV::List(vec![ok.clone(), JV::Num(1.0), ok])),
                }
            }
            let v = JV::Rec(f);
            render_doc(rng, &v)
        }
    }
}

fn gen_script(rng: &mut Rng, inputs_hint: &[String], world: &[(String, JV)]) -> Vec<CStmt> {
    // mostly short scripts; sometimes long ones (longer than a path component / a pipe chunk)
    let long = rng.chance(1, 6);
    let n = if long { rng.range(12, 40) as usize } else if rng.chance(1, 25) { 0 } else { rng.range(1, 9) as usize };
    let extra: Vec<String> = (0..48).map(|i| format!("v{}", i)).collect();
    let mut names: Vec<&str> = vec!["p", "q", "res", "total", "iffy2", "nil_count", "out1", "v"];
    if long {
        names.extend(extra.iter().map(|s| s.as_str()));
    }
    let allow_comments = !long || rng.chance(1, 2);
    let mut bound: Vec<(String, bool)> = vec![]; // (name, is_number)
    let mut stmts = vec![];
    let mut outs = 0;
    let ident_keys: Vec<&str> = KEYS.iter().copied().filter(|k| crate::hast::is_ident(k)).collect();
    let any_key = |rng: &mut Rng| -> String {
        if !inputs_hint.is_empty() && rng.chance(2, 3) { rng.pick(inputs_hint).clone() } else { (*rng.pick(KEYS)).to_string() }
    };
    let mut gen_ce = |rng: &mut Rng, bound: &Vec<(String, bool)>| -> (CE, bool) {
        match rng.below(13) {
            11 | 12 => {
                // one value reached twice inside the same container (the same heap cell shared by
                // two members): a bound name, an input through both spellings, the inputs record
                let k = any_key(rng);
                let (x, y) = if !bound.is_empty() && rng.chance(1, 2) {
                    let n = rng.pick(bound).0.clone();
                    (CE::Name(n.clone()), CE::Name(n))
                } else if crate::hast::is_ident(&k) {
                    match rng.below(3) {
                        0 => (CE::InRef(k.clone()), CE::InDot(k)),
                        1 => (CE::InDot(k.clone()), CE::InDot(k)),
                        _ => (CE::InRef(k.clone()), CE::InRef(k)),
                    }
                } else {
                    (CE::Inputs, CE::Inputs)
                };
                let e = match rng.below(4) {
                    0 => CE::List(vec![x, y]),
                    1 => CE::Rec(vec![("a".into(), x), ("b".into(), y)]),
                    2 => CE::List(vec![CE::List(vec![x]), CE::Rec(vec![("z".into(), y)])]),
                    _ => CE::Rec(vec![("a".into(), CE::Rec(vec![("in".into(), x)])), ("b".into(), CE::List(vec![y, CE::Lit(JV::Num(1.0))]))]),
                };
                (e, false)
            }
            0 => (CE::Lit(gen_jv(rng, 1)), false),
            1 => (CE::Lit(JV::Num(rng.range(0, 40) as f64)), true),
            2 | 3 => {
                // sometimes an input reference whose name is a *binding* of the script (and,
                // usually, not an input): `#name` is `inputs.name`, never the binding
                let k = if !bound.is_empty() && rng.chance(1, 5) { rng.pick(bound).0.clone() } else { any_key(rng) };
                if crate::hast::is_ident(&k) {
                    let base = if rng.chance(1, 2) { CE::InDot(k) } else { CE::InRef(k) };
                    if rng.chance(1, 3) { (CE::Wrap(rng.below(4) as u8, Box::new(base)), false) } else { (base, false) }
                } else if !k.contains('"') {
                    (CE::InIdx(k), false)
                } else {
                    (CE::Inputs, false)
                }
            }
            4 => {
                let k = (*rng.pick(&ident_keys)).to_string();
                // `??` broadcasts over lists (C11's subject): only apply it to non-list inputs
                if world.iter().any(|(kk, v)| *kk == k && matches!(v, JV::List(_))) {
                    (CE::InRef(k), false)
                } else {
                    (CE::Coalesce(Box::new(CE::InRef(k)), JV::Num(rng.range(0, 9) as f64)), false)
                }
            }
            5 => (CE::Inputs, false),
            6 => {
                let nums: Vec<&(String, bool)> = bound.iter().filter(|b| b.1).collect();
                let a = if !nums.is_empty() && rng.chance(1, 2) { CE::Name(rng.pick(&nums).0.clone()) } else { CE::Lit(JV::Num(rng.range(0, 20) as f64)) };
                let b = CE::Lit(JV::Num(rng.range(0, 20) as f64));
                (CE::Add(Box::new(a), Box::new(b)), true)
            }
            7 => {
                let k = any_key(rng);
                let inner = if crate::hast::is_ident(&k) { CE::InRef(k) } else { CE::Lit(JV::Null) };
                (CE::List(vec![inner, CE::Lit(JV::Num(1.0))]), false)
            }
            8 => {
                let k = any_key(rng);
                let inner = if crate::hast::is_ident(&k) { CE::InDot(k) } else { CE::Inputs };
                (CE::Rec(vec![("zz".into(), CE::Lit(JV::Bool(true))), ("aa".into(), inner)]), false)
            }
            9 => {
                // succeeds, but its value is not modelled (functions, built-ins, broadcasting,
                // string / list built-ins): as an output the key must be there
                let srcs = [
                    "(x) => x + 1",
                    "(a, b?) => [a, b]",
                    "(...xs) => len(xs)",
                    "sum",
                    "[1, 2, 3] * 2",
                    "range(4) via (x => x * x)",
                    "uppercase(\"abc\") + to_string(12)",
                    "if 1 .< 2 then \"yes\" else \"no\"",
                    "do { t = 2; return t * 21 }",
                    "{a: 1, ...{b: 2}}",
                    "sort([3, 1, 2])",
                    "((n) => n!)(5)",
                ];
                (CE::Opaque((*rng.pick(&srcs)).to_string()), false)
            }
            _ => match bound.first() {
                Some((n, isnum)) => (CE::Name(n.clone()), *isnum),
                None => (CE::Lit(JV::Str("lit".into())), false),
            },
        }
    };
    for _ in 0..n {
        let free: Vec<&&str> = names.iter().filter(|n| !bound.iter().any(|b| b.0 == **n)).collect();
        match rng.below(10) {
            0 | 1 | 2 if !free.is_empty() => {
                let name = (**rng.pick(&free)).to_string();
                let (e, isnum) = gen_ce(rng, &bound);
                bound.push((name.clone(), isnum));
                stmts.push(CStmt::Bind(name, e));
            }
            3 | 4 | 5 if !free.is_empty() && outs < 6 => {
                let name = (**rng.pick(&free)).to_string();
                let (e, isnum) = gen_ce(rng, &bound);
                bound.push((name.clone(), isnum));
                stmts.push(CStmt::OutBind(name, e));
                outs += 1;
            }
            6 | 7 if !bound.is_empty() && outs < 6 => {
                let name = rng.pick(&bound).0.clone();
                stmts.push(CStmt::Out(name));
                outs += 1;
            }
            8 if outs < 6 => {
                if rng.chance(1, 2) {
                    stmts.push(CStmt::Out("inputs".into()));
                } else {
                    stmts.push(CStmt::OutVisible((*rng.pick(&["sum", "constants", "map", "len"])).to_string()));
                }
                outs += 1;
            }
            _ => {
                if allow_comments {
                    stmts.push(CStmt::Comment((*rng.pick(&["note", "first; second", "x = 1; output y = x", "uses #k ?? 2", "\"quoted\"", "trailing space "])).to_string()))
                } else if !free.is_empty() {
                    let name = (**rng.pick(&free)).to_string();
                    bound.push((name.clone(), false));
                    stmts.push(CStmt::Bind(name, CE::Lit(JV::Str("x".repeat(rng.range(1, 120) as usize)))));
                }
            }
        }
    }
    // sometimes a string literal that spans lines (LF, CRLF, bare CR, blank lines inside it):
    // its value is the bytes between the quotes, whatever the line endings of the script
    if rng.chance(1, 5) {
        let text = (*rng.pick(&["cr\r\nlf", "line1\nline2", "bare\rcr", "\nleading", "trailing\r\n", "blank\n\nline", "two\r\n\r\nbreaks", "a\r\n  indented"])).to_string();
        let lit = match rng.below(3) {
            0 => CE::Lit(JV::Str(text)),
            1 => CE::List(vec![CE::Lit(JV::Num(1.0)), CE::Lit(JV::Str(text))]),
            _ => CE::Rec(vec![("t".into(), CE::Lit(JV::Str(text)))]),
        };
        let pos = rng.usize_below(stmts.len() + 1);
        if outs < 6 {
            stmts.insert(pos, CStmt::OutBind("mlq".into(), lit));
        } else {
            stmts.insert(pos, CStmt::Bind("mlq".into(), lit));
        }
    }
    // optional failing statement at a seeded position
    if rng.chance(1, 3) {
        let pos = rng.usize_below(stmts.len() + 1);
        let f = match rng.below(15) {
            0 => CStmt::Fail("unknown-identifier".into(), "w1 = nosuch_name".into()),
            1 => CStmt::Fail("type-error".into(), "w2 = 1 + \"a\"".into()),
            2 => match bound.first() {
                Some((n, _)) if stmts.iter().take(pos).any(|s| matches!(s, CStmt::Bind(m, _) | CStmt::OutBind(m, _) if m == n)) => {
                    CStmt::Fail("rebind".into(), format!("{} = 2", n))
                }
                _ => CStmt::Fail("rebind-builtin".into(), "sum = 2".into()),
            },
            3 => CStmt::Fail("call-non-function".into(), "w3 = (5)(1)".into()),
            4 => CStmt::Fail("output-unbound".into(), "output never_bound".into()),
            5 => CStmt::Syntax("w4 = = 1".into()),
            6 => CStmt::Fail("output-function-unbound-name".into(), "output fn1 = x => x + zzz_unbound".into()),
            7 => CStmt::Fail("output-assign-type-error".into(), "output w5 = [1, 2] + [1]".into()),
            8 => CStmt::Syntax("w6 = [1, 2".into()),
            9 => CStmt::Fail("output-list-with-unbound-function".into(), "output fl = [(x) => x + zzz_unbound]".into()),
            10 => CStmt::Fail("error-inside-do-block".into(), "w7 = do { t = 1; return t + \"s\" }".into()),
            11 => CStmt::Fail("error-inside-callback".into(), "w8 = [1, 2] via (x => x + \"s\")".into()),
            12 => CStmt::Fail("bind-keyword-like-builtin".into(), "output len = 3".into()),
            13 => CStmt::Fail("arity".into(), "w9 = ((a, b) => a)(1)".into()),
            _ => CStmt::Syntax("output = 3".into()),
        };
        stmts.insert(pos, f);
    }
    stmts
}

pub fn gen_scenario(rng: &mut Rng) -> Scenario {
    let mode = match rng.below(5) {
        0 | 1 => Mode::File,
        2 | 3 => Mode::Inline,
        _ => Mode::EvalStdin,
    };
    let nflags = rng.range(0, 4) as usize;
    let mut flags: Vec<String> = vec![];
    for _ in 0..nflags {
        // sometimes a document that overlaps an earlier one key by key (nested records with
        // fewer / other / more members, null, arrays, scalars in place of objects)
        let derived = if !flags.is_empty() && rng.chance(1, 3) {
            let src: String = flags[rng.usize_below(flags.len())].clone();
            match serde_json::from_str::<serde_json::Value>(&src) {
                Ok(serde_json::Value::Object(o)) if !o.is_empty() => {
                    let mut f = vec![];
                    for (k, v) in o.iter() {
                        if rng.chance(1, 4) {
                            continue;
                        }
                        let nv = match JV::from_serde(v) {
                            JV::Rec(inner) => match rng.below(4) {
                                0 => JV::Rec(inner.into_iter().filter(|_| rng.chance(1, 2)).collect()),
                                1 => JV::Rec(vec![]),
                                2 => {
                                    let mut i2 = inner;
                                    i2.push(("extra".into(), JV::Num(1.0)));
                                    JV::Rec(i2)
                                }
                                _ => JV::Null,
                            },
                            _ => gen_jv(rng, 1),
                        };
                        JV::rec_insert(&mut f, k, nv);
                    }
                    Some(JV::Rec(f).to_json())
                }
                _ => None,
            }
        } else {
            None
        };
        // sometimes the very same document text as an earlier source (A B A: the later copy
        // wins its keys back; a repeated non-object document gets its own value_k)
        if !flags.is_empty() && derived.is_none() && rng.chance(1, 5) {
            let again = flags[rng.usize_below(flags.len())].clone();
            flags.push(again);
            continue;
        }
        flags.push(derived.unwrap_or_else(|| gen_input_doc(rng)));
    }
    let stdin = if mode == Mode::EvalStdin {
        StdinKind::DevNull // replaced by the script at invocation time
    } else {
        let kinds = if rng.chance(1, 12) { 9 } else { 8 };
        match rng.below(kinds) {
            8 => {
                let d = gen_large_doc(rng).into_bytes();
                if rng.chance(1, 2) { StdinKind::Pipe(d) } else { StdinKind::File(d) }
            }
            0 => StdinKind::DevNull,
            1 => StdinKind::Pipe(b"".to_vec()),
            2 => StdinKind::Pipe(b" \n\t ".to_vec()),
            3 => StdinKind::File(gen_input_doc(rng).into_bytes()),
            _ => StdinKind::Pipe(gen_input_doc(rng).into_bytes()),
        }
    };
    // keys present in the inputs (hint for the script generator)
    let mut hint: Vec<String> = vec![];
    let mut docs: Vec<String> = flags.clone();
    if let StdinKind::Pipe(b) | StdinKind::File(b) = &stdin {
        docs.push(String::from_utf8_lossy(b).to_string());
    }
    for d in &docs {
        if let Ok(serde_json::Value::Object(o)) = serde_json::from_str::<serde_json::Value>(d) {
            hint.extend(o.keys().cloned());
        }
    }
    hint.push("value_1".into());
    let world = match merge_inputs(
        match &stdin {
            StdinKind::Pipe(b) | StdinKind::File(b) => Some(b.as_slice()),
            StdinKind::DevNull | StdinKind::Dir => if mode == Mode::EvalStdin { None } else { Some(&[][..]) },
        },
        &flags,
    ) {
        InputsResult::Ok(m) => m,
        InputsResult::Malformed(_) => vec![],
    };
    let script = gen_script(rng, &hint, &world);
    let out = match rng.below(8) {
        0 | 1 => OutDest::File,
        2 => OutDest::FileStale("{\"stale\":true}".into()),
        // the destination is one of the run's own sources: everything must have been read
        // before the object is written over it
        3 if mode == Mode::File && rng.chance(1, 2) => OutDest::FileIsScript,
        3 if matches!(stdin, StdinKind::File(_)) => OutDest::FileIsStdin,
        _ => OutDest::Stdout,
    };
    let mut plan = Plan::canonical();
    plan.seed = rng.next_u64() % 1_000_000_007;
    Scenario {
        script,
        mode,
        out,
        stdin,
        stdout: StdoutKind::Pipe,
        flags,
        plan,
        aslr_off: false,
        long_flags: rng.chance(1, 2),
        script_style: if rng.chance(1, 2) { 0 } else { rng.below(4) as u8 },
        flag_eq: rng.chance(1, 4),
        script_first: rng.chance(1, 4),
        path_style: if rng.chance(2, 3) { 0 } else { rng.below(4) as u8 },
        script_bad_byte: if rng.chance(1, 30) { Some(rng.below(4096) as u32) } else { None },
        stdin_bad_byte: if rng.chance(1, 25) { Some(rng.below(4096) as u32) } else { None },
    }
}

fn with_bad_byte(mut bytes: Vec<u8>, at: Option<u32>) -> Vec<u8> {
    if let Some(a) = at {
        let pos = a as usize % (bytes.len() + 1);
        bytes.insert(pos, 0xFF);
    }
    bytes
}

/// The stdin inputs document as the process gets it.
fn stdin_as_given(sc: &Scenario) -> StdinKind {
    match (&sc.stdin, sc.stdin_bad_byte) {
        (StdinKind::Pipe(b), Some(_)) if !b.is_empty() => StdinKind::Pipe(with_bad_byte(b.clone(), sc.stdin_bad_byte)),
        (StdinKind::File(b), Some(_)) if !b.is_empty() => StdinKind::File(with_bad_byte(b.clone(), sc.stdin_bad_byte)),
        (other, _) => other.clone(),
    }
}

// ---------------------------------------------------------------------------------------
// Invocation, expectation, oracle
// ---------------------------------------------------------------------------------------

pub fn styled_source(sc: &Scenario) -> String {
    let lines: Vec<String> = sc.script.iter().map(stmt_src).collect();
    match sc.script_style {
        1 => lines.join("\r\n") + "\r\n",
        2 => lines.join("\n"),
        3 => format!("\n\n{}  \n\n", lines.join("  \n\n")),
        _ => lines.join("\n") + "\n",
    }
}

pub fn invocation(sc: &Scenario) -> Invocation {
    let src = styled_source(sc);
    let mut argv: Vec<String> = vec![];
    let mut files = vec![];
    let mut dirs = vec![];
    let mut stdin = stdin_as_given(sc);
    for f in &sc.flags {
        // a value that begins with `-` (a negative number as a document) is taken for a flag by
        // the argument parser unless it is attached with `=`
        if sc.flag_eq || f.trim_start().starts_with('-') {
            argv.push(format!("--input={}", f));
        } else {
            argv.push(if sc.long_flags { "--input".into() } else { "-i".into() });
            argv.push(f.clone());
        }
    }
    let mut out_path = None;
    // path variants keep the suffixes the shim classifies by (prog.blots / out.json)
    let (prog_name, out_name) = match sc.path_style {
        1 => ("my prog.blots".to_string(), "the out.json".to_string()),
        2 => {
            dirs.push("sub dir".to_string());
            ("sub dir/prog.blots".to_string(), "./sub dir/out.json".to_string())
        }
        3 => ("скрипт-prog.blots".to_string(), "вывод-out.json".to_string()),
        _ => ("prog.blots".to_string(), "out.json".to_string()),
    };
    match &sc.out {
        OutDest::Stdout => {}
        OutDest::File => {
            argv.push(if sc.long_flags { "--output".into() } else { "-o".into() });
            argv.push(out_name.clone());
            out_path = Some(out_name.clone());
        }
        OutDest::FileStale(content) => {
            argv.push("-o".into());
            argv.push(out_name.clone());
            files.push((out_name.clone(), content.clone().into_bytes()));
            out_path = Some(out_name.clone());
        }
        OutDest::FileIsScript => {
            let name = if sc.mode == Mode::File { prog_name.clone() } else { out_name.clone() };
            argv.push("-o".into());
            argv.push(name.clone());
            out_path = Some(name);
        }
        OutDest::FileIsStdin => {
            let name = if matches!(sc.stdin, StdinKind::File(_)) && sc.mode != Mode::EvalStdin { ".stdin".to_string() } else { out_name.clone() };
            argv.push("-o".into());
            argv.push(name.clone());
            out_path = Some(name);
        }
        OutDest::FileMissingDir => {
            argv.push("-o".into());
            argv.push("missing_dir/out.json".into());
            out_path = Some("missing_dir/out.json".to_string());
        }
        OutDest::FileIsDir => {
            argv.push("-o".into());
            argv.push("adir".into());
            dirs.push("adir".to_string());
            out_path = Some("adir".to_string());
        }
        OutDest::FileDevFull => {
            argv.push("-o".into());
            argv.push("/dev/full".into());
        }
    }
    let pos = if sc.script_first { 0 } else { argv.len() };
    match sc.mode {
        Mode::File => {
            files.push((prog_name.clone(), with_bad_byte(src.into_bytes(), sc.script_bad_byte)));
            argv.insert(pos, prog_name.clone());
        }
        Mode::Inline => argv.insert(pos, src),
        Mode::EvalStdin => {
            argv.push(if sc.long_flags { "--evaluate".into() } else { "-e".into() });
            stdin = StdinKind::Pipe(with_bad_byte(src.into_bytes(), sc.script_bad_byte));
        }
    }
    Invocation {
        argv,
        stdin,
        stdout: sc.stdout.clone(),
        files,
        dirs,
        plan: Some(sc.plan.clone()),
        src_suffix: "prog.blots".into(),
        out_suffix: "out.json".into(),
        aslr_off: sc.aslr_off,
        out_path,
        extra_env: vec![],
    }
}

fn json_object_lines(bytes: &[u8]) -> Vec<String> {
    let text = String::from_utf8_lossy(bytes);
    let mut v = vec![];
    for line in text.lines() {
        let t = line.trim();
        if t.starts_with('{') {
            if let Ok(serde_json::Value::Object(_)) = serde_json::from_str::<serde_json::Value>(t) {
                v.push(t.to_string());
            }
        }
    }
    v
}

/// Compare an emitted object text with the model's outputs: keys in declaration order,
/// values equal (numbers as doubles, nested records ignoring order). Entries marked visible
/// must be present at their position; their value is not modelled.
fn compare_object(text: &str, outputs: &[(String, JV)]) -> Result<(), String> {
    let parsed: serde_json::Value = serde_json::from_str(text).map_err(|e| format!("emitted text is not JSON: {}", e))?;
    let obj = parsed.as_object().ok_or_else(|| "emitted JSON is not an object".to_string())?;
    let keys = top_level_keys(text).ok_or_else(|| "cannot scan top-level keys".to_string())?;
    let want: Vec<&String> = outputs.iter().map(|(k, _)| k).collect();
    if keys.iter().collect::<Vec<_>>() != want {
        return Err(format!("top-level keys {:?}, expected {:?} (declaration order)", keys, want));
    }
    for (k, v) in outputs {
        if matches!(v, JV::Opaque) {
            continue;
        }
        let got = JV::from_serde(&obj[k]);
        if !got.same(v) {
            return Err(format!("key {:?}: got {} expected {}", k, got.to_json(), v.to_json()));
        }
    }
    Ok(())
}

pub struct Judged {
    pub viol: Option<Viol>,
    pub hard_fired: bool,
    pub benign_fired: BTreeSet<String>,
    pub hard_kinds: BTreeSet<String>,
    pub expect_success: bool,
    pub delivered: usize,
    pub model_unknown: bool,
}

/// Bytes of the stdin inputs document the process actually received.
fn delivered_stdin(sc: &Scenario, rr: &RunResult) -> Option<Vec<u8>> {
    if sc.mode == Mode::EvalStdin {
        return None;
    }
    match &stdin_as_given(sc) {
        StdinKind::DevNull => Some(vec![]),
        StdinKind::Dir => Some(vec![]),
        StdinKind::Pipe(b) | StdinKind::File(b) => {
            let n: i64 = rr.log.iter().filter(|e| e.op == "read" && e.cls == "0" && e.ret > 0).map(|e| e.ret).sum();
            Some(b[..(n as usize).min(b.len())].to_vec())
        }
    }
}

pub fn judge(sc: &Scenario, rr: &RunResult) -> Judged {
    let mut benign = BTreeSet::new();
    let mut hard_kinds = BTreeSet::new();
    for e in &rr.log {
        if e.ret < 0 && e.errno == EINTR {
            benign.insert(format!("eintr:{}:{}", e.op, e.cls));
        } else if e.ret < 0 && (e.op == "read" || e.op == "write" || e.op == "open") {
            hard_kinds.insert(format!("{}:{}:errno{}", e.op, e.cls, e.errno));
        } else if (e.op == "read" || e.op == "write") && e.ret > 0 && e.ret < e.req {
            benign.insert(format!("short-{}:{}", e.op, e.cls));
        }
    }
    match &sc.out {
        OutDest::FileMissingDir | OutDest::FileIsDir | OutDest::FileDevFull => {
            hard_kinds.insert(format!("real-fs:{:?}", sc.out));
        }
        _ => {}
    }
    if sc.stdout == StdoutKind::DevFull {
        hard_kinds.insert("real-fs:stdout-devfull".into());
    }
    let stdin_read_error = rr.log.iter().any(|e| e.op == "read" && e.cls == "0" && e.ret < 0 && e.errno != EINTR);
    let delivered = delivered_stdin(sc, rr);
    let dlen = delivered.as_ref().map(|d| d.len()).unwrap_or(0);
    let inputs = merge_inputs(delivered.as_deref(), &sc.flags);
    let mut expect = run_model(&sc.script, &inputs);
    // a script that cannot be decoded cannot succeed; inputs that could not be read (a read
    // error other than EINTR on the stdin inputs document) were not merged
    if sc.script_bad_byte.is_some() && sc.mode != Mode::Inline {
        expect = Expect::Failure { why: "the script is not valid UTF-8".into() };
    } else if stdin_read_error && sc.mode != Mode::EvalStdin {
        expect = Expect::Failure { why: "reading the inputs document from stdin failed".into() };
    }
    let expect_success = matches!(expect, Expect::Success { .. });
    let hard = !hard_kinds.is_empty();
    let mut j = Judged { viol: None, hard_fired: hard, benign_fired: benign, hard_kinds, expect_success, delivered: dlen, model_unknown: false };
    let fail = |clause: &str, detail: String| Some(Viol { clause: clause.to_string(), detail });

    if rr.timed_out {
        j.viol = fail("no-termination", "the process did not terminate within the (real-time) watchdog limit".into());
        return j;
    }
    let stdout_objs = json_object_lines(&rr.stdout);
    let uses_file = !matches!(sc.out, OutDest::Stdout);
    let stale = match &sc.out {
        OutDest::FileStale(s) => Some(s.clone().into_bytes()),
        OutDest::FileIsScript if sc.mode == Mode::File => Some(with_bad_byte(styled_source(sc).into_bytes(), sc.script_bad_byte)),
        OutDest::FileIsStdin if sc.mode != Mode::EvalStdin => match stdin_as_given(sc) {
            StdinKind::File(b) => Some(b),
            _ => None,
        },
        _ => None,
    };
    let exit0 = rr.exit == Some(0);

    // the script on stdin (-e) hit a read error: the program text itself is in doubt
    let script_in_doubt = sc.mode == Mode::EvalStdin && stdin_read_error;

    // ---- what a successful run must look like ------------------------------------------
    let check_success = |outputs: &Vec<(String, JV)>| -> Result<(), (String, String)> {
        if uses_file {
            if !stdout_objs.is_empty() {
                return Err(("stray-object".into(), format!("an outputs object appeared on stdout although -o was given: {}", stdout_objs[0])));
            }
            if matches!(sc.out, OutDest::FileDevFull | OutDest::FileIsDir | OutDest::FileMissingDir) {
                return Err(("exit0-without-delivery".into(), format!("exit 0 although the output destination {:?} cannot hold the object", sc.out)));
            }
            match &rr.out_file {
                None => Err(("exit0-without-delivery".into(), "exit 0 but the --output file does not exist".into())),
                Some(b) => {
                    let text = String::from_utf8_lossy(b).to_string();
                    compare_object(&text, outputs).map_err(|e| ("wrong-object".to_string(), format!("--output file: {} (file: {:?})", e, text)))
                }
            }
        } else {
            if sc.stdout == StdoutKind::DevFull {
                return Err(("exit0-without-delivery".into(), "exit 0 although stdout is /dev/full".into()));
            }
            if stdout_objs.len() != 1 {
                return Err((
                    if stdout_objs.is_empty() { "exit0-without-delivery".into() } else { "stray-object".into() },
                    format!("exit 0 with {} JSON objects on stdout (stdout: {:?})", stdout_objs.len(), String::from_utf8_lossy(&rr.stdout)),
                ));
            }
            compare_object(&stdout_objs[0], outputs).map_err(|e| ("wrong-object".to_string(), format!("stdout: {} (stdout: {:?})", e, stdout_objs[0])))
        }
    };
    // ---- what a failing run must look like ---------------------------------------------
    let check_failure_shape = || -> Result<(), (String, String)> {
        if !stdout_objs.is_empty() {
            return Err(("object-on-failure".into(), format!("an outputs object was emitted although the run failed: {}", stdout_objs[0])));
        }
        if uses_file && matches!(sc.out, OutDest::File | OutDest::FileStale(_) | OutDest::FileIsScript | OutDest::FileIsStdin) {
            match (&rr.out_file, &stale) {
                (None, _) => {}
                (Some(b), Some(s)) if b == s => {}
                (Some(b), _) => {
                    return Err(("object-on-failure".into(), format!("the --output file was written although the run failed: {:?}", String::from_utf8_lossy(b))));
                }
            }
        }
        Ok(())
    };

    match (&expect, hard) {
        (Expect::Unknown, _) => {
            j.model_unknown = true;
        }
        (Expect::Success { outputs, visible }, false) => {
            // strict
            if script_in_doubt {
                return j;
            }
            if !exit0 {
                if !visible.is_empty() && rr.exit.is_some() {
                    // `output <built-in>`: refusing it is one of the two accepted behaviours
                    if let Err((c, d)) = check_failure_shape() {
                        j.viol = fail(&c, d);
                    }
                    return j;
                }
                j.viol = fail(
                    "spurious-failure",
                    format!("every statement succeeds per the model but exit={:?} signal={:?} stderr={:?} stdout={:?}", rr.exit, rr.signal, String::from_utf8_lossy(&rr.stderr), String::from_utf8_lossy(&rr.stdout)),
                );
                return j;
            }
            if let Err((c, d)) = check_success(outputs) {
                let c = if c == "wrong-object" && d.contains("top-level keys") && visible.iter().any(|v| !d.split("expected").next().unwrap_or("").contains(&format!("{:?}", v))) { "output-dropped".to_string() } else { c };
                j.viol = fail(&c, d);
            }
        }
        (Expect::Failure { why }, _) => {
            // strict and relaxed (b): a failing script / malformed input never exits 0
            if script_in_doubt {
                return j;
            }
            if exit0 {
                j.viol = fail("exit0-on-failure", format!("model: {}; but exit 0 (stdout {:?})", why, String::from_utf8_lossy(&rr.stdout)));
                return j;
            }
            if rr.exit.is_none() && !hard {
                j.viol = fail("killed-by-signal", format!("model: {}; process died with signal {:?}", why, rr.signal));
                return j;
            }
            if let Err((c, d)) = check_failure_shape() {
                j.viol = fail(&c, d);
                return j;
            }
            if !hard && rr.stdout.iter().all(|b| b.is_ascii_whitespace()) && rr.stderr.iter().all(|b| b.is_ascii_whitespace()) {
                j.viol = fail("silent-failure", format!("model: {}; non-zero exit but nothing was reported", why));
            }
        }
        (Expect::Success { outputs, .. }, true) => {
            // relaxed (a): a hard fault may make the run fail; exit 0 must mean delivered
            if exit0 {
                if script_in_doubt {
                    return j;
                }
                if let Err((c, d)) = check_success(outputs) {
                    let c = if c == "wrong-object"
                        && d.contains("top-level keys")
                        && outputs.iter().any(|(k, v)| matches!(v, JV::Opaque) && !d.split("expected").next().unwrap_or("").contains(&format!("{:?}", k)))
                    {
                        "output-dropped".to_string()
                    } else {
                        c
                    };
                    j.viol = fail(&c, format!("under hard fault {:?}: {}", j.hard_kinds, d));
                }
            }
        }
    }
    // bounded liveness under benign faults only
    if j.viol.is_none() && !hard {
        let calls = rr.log.iter().filter(|e| e.op != "getenv").count() as u64;
        let bytes: u64 = rr.log.iter().filter(|e| e.ret > 0 && (e.op == "read" || e.op == "write")).map(|e| e.ret as u64).sum();
        if calls > 4 * bytes + 64 {
            j.viol = fail("liveness-bound", format!("{} intercepted calls for {} bytes transferred", calls, bytes));
        }
    }
    j
}

// ---------------------------------------------------------------------------------------
// Enumeration of plans for one scenario
// ---------------------------------------------------------------------------------------

fn with_rules(sc: &Scenario, rules: Vec<Rule>) -> Scenario {
    let mut s = sc.clone();
    s.plan.rules = rules;
    s
}

pub fn enumerate_plans(sc: &Scenario, base: &RunResult, rng: &mut Rng) -> Vec<(String, Scenario)> {
    let mut out: Vec<(String, Scenario)> = vec![];
    let calls = |op: &str, cls: &str| base.log.iter().filter(|e| e.op == op && e.cls == cls).count() as u32;
    let rd0 = calls("read", "0");
    let rdsrc = calls("read", "src");
    let wr1 = calls("write", "1");
    let wr2 = calls("write", "2");
    let wrout = calls("write", "out");
    let opened_out = calls("open", "out") > 0;
    // ---- benign ------------------------------------------------------------------------
    let large_stdin = matches!(&sc.stdin, StdinKind::Pipe(b) | StdinKind::File(b) if b.len() > 4096);
    if large_stdin && rd0 > 0 {
        // a large document: chunk sizes around typical buffer sizes instead of single bytes
        for (name, sizes) in [("4k", vec![4096u32]), ("1000-7-65535", vec![1000, 7, 65535]), ("8191", vec![8191])] {
            out.push((format!("benign:rchunks-{}:0", name), with_rules(sc, vec![Rule::RChunks { cls: "0".into(), sizes, star: false }])));
        }
    }
    for (name, sizes, star) in [("1byte", vec![1u32], false), ("2byte", vec![2], false), ("3-1-7-rest", vec![3, 1, 7], true)] {
        for cls in ["0", "src"] {
            if cls == "0" && large_stdin && !star {
                continue;
            }
            if (cls == "0" && rd0 > 0) || (cls == "src" && rdsrc > 0) {
                out.push((format!("benign:rchunks-{}:{}", name, cls), with_rules(sc, vec![Rule::RChunks { cls: cls.into(), sizes: sizes.clone(), star }])));
            }
        }
        for cls in ["1", "out", "2"] {
            if (cls == "1" && wr1 > 0) || (cls == "out" && wrout > 0) || (cls == "2" && wr2 > 0) {
                out.push((format!("benign:wchunks-{}:{}", name, cls), with_rules(sc, vec![Rule::WChunks { cls: cls.into(), sizes: sizes.clone(), star }])));
            }
        }
    }
    {
        let sizes: Vec<u32> = (0..12).map(|_| if large_stdin { rng.range(500, 9000) as u32 } else { rng.range(1, 9) as u32 }).collect();
        out.push((
            "benign:random-chunks-all".into(),
            with_rules(
                sc,
                vec![
                    Rule::RChunks { cls: "0".into(), sizes: sizes.clone(), star: false },
                    Rule::RChunks { cls: "src".into(), sizes: sizes.clone(), star: true },
                    Rule::WChunks { cls: "1".into(), sizes: sizes.clone(), star: false },
                    Rule::WChunks { cls: "out".into(), sizes: sizes.clone(), star: false },
                ],
            ),
        ));
    }
    for (cls, n, rd) in [("0", rd0, true), ("src", rdsrc, true), ("1", wr1, false), ("out", wrout, false), ("2", wr2, false)] {
        for call in 1..=n {
            let times = 1 + (call % 3);
            let rule = if rd { Rule::RErr { cls: cls.into(), call, errno: EINTR, times } } else { Rule::WErr { cls: cls.into(), call, errno: EINTR, times } };
            out.push((format!("benign:eintr:{}", cls), with_rules(sc, vec![rule])));
        }
    }
    for k in 0..2 {
        let mut s = sc.clone();
        s.plan.seed = rng.next_u64() % 1_000_000_007;
        s.plan.clock_real = rng.range(-10_000_000, 4_000_000_000) * 1_000_000_000;
        s.plan.clock_mono = rng.range(0, 1_000_000) * 1_000_000;
        s.plan.clock_step = rng.range(1, 100_000_000);
        s.aslr_off = k == 0;
        out.push(("benign:seed-clock-aslr".into(), s));
    }
    // ---- hard ---------------------------------------------------------------------------
    for call in 1..=rd0 {
        out.push(("hard:read-eio:0".into(), with_rules(sc, vec![Rule::RErr { cls: "0".into(), call, errno: EIO, times: 1 }])));
        out.push(("hard:read-eagain:0".into(), with_rules(sc, vec![Rule::RErr { cls: "0".into(), call, errno: EAGAIN, times: 1 }])));
    }
    // a short write followed by an error on the next call (partial delivery, then failure)
    for errno in [EAGAIN, ENOSPC] {
        for chunk in [1u32, 5] {
            if wr1 > 0 {
                out.push((format!("hard:short-write-then-errno{}:1", errno), with_rules(sc, vec![Rule::WChunks { cls: "1".into(), sizes: vec![chunk], star: true }, Rule::WErr { cls: "1".into(), call: 2, errno, times: 1 }])));
            }
            if wrout > 0 {
                out.push((format!("hard:short-write-then-errno{}:out", errno), with_rules(sc, vec![Rule::WChunks { cls: "out".into(), sizes: vec![chunk], star: true }, Rule::WErr { cls: "out".into(), call: 2, errno, times: 1 }])));
            }
        }
    }
    for call in 1..=rdsrc {
        out.push(("hard:read-eio:src".into(), with_rules(sc, vec![Rule::RErr { cls: "src".into(), call, errno: EIO, times: 1 }])));
    }
    if sc.mode != Mode::EvalStdin {
        if let StdinKind::Pipe(b) | StdinKind::File(b) = &sc.stdin {
            let len = b.len() as u64;
            let positions: Vec<u64> = if len <= 40 { (0..len).collect() } else { (0..40).map(|i| i * len / 40).collect() };
            for n in positions {
                out.push(("hard:stdin-eof".into(), with_rules(sc, vec![Rule::REof { cls: "0".into(), n }])));
            }
        }
    }
    for call in 1..=wr1 {
        for errno in [ENOSPC, EPIPE, EIO, EAGAIN] {
            out.push((format!("hard:write-errno{}:1", errno), with_rules(sc, vec![Rule::WErr { cls: "1".into(), call, errno, times: 1 }])));
        }
    }
    if opened_out || matches!(sc.out, OutDest::File | OutDest::FileStale(_) | OutDest::FileIsScript | OutDest::FileIsStdin) {
        for errno in [EACCES, ENOENT, EISDIR, EMFILE, ENOSPC] {
            out.push((format!("hard:open-errno{}:out", errno), with_rules(sc, vec![Rule::OpenErr { cls: "out".into(), errno }])));
        }
    }
    for call in 1..=wrout {
        for errno in [ENOSPC, EIO, EAGAIN] {
            out.push((format!("hard:write-errno{}:out", errno), with_rules(sc, vec![Rule::WErr { cls: "out".into(), call, errno, times: 1 }])));
        }
    }
    for call in 1..=wr2 {
        out.push(("hard:write-eio:2".into(), with_rules(sc, vec![Rule::WErr { cls: "2".into(), call, errno: EIO, times: 1 }])));
    }
    // real kernel objects
    if !matches!(sc.out, OutDest::Stdout) {
        for d in [OutDest::FileMissingDir, OutDest::FileIsDir, OutDest::FileDevFull] {
            let mut s = sc.clone();
            s.out = d.clone();
            out.push((format!("hard:real-fs:{:?}", d), s));
        }
    } else {
        let mut s = sc.clone();
        s.stdout = StdoutKind::DevFull;
        out.push(("hard:real-fs:stdout-devfull".into(), s));
    }
    if sc.mode != Mode::EvalStdin {
        let mut s = sc.clone();
        s.stdin = StdinKind::Dir;
        out.push(("hard:real-fs:stdin-is-dir".into(), s));
    }
    // ---- multi-fault: benign chunking + one hard fault; two hard faults ------------------
    for _ in 0..4 {
        let mut rules = vec![
            Rule::RChunks { cls: "0".into(), sizes: vec![if large_stdin { rng.range(2000, 9000) as u32 } else { rng.range(1, 5) as u32 }], star: false },
            Rule::WChunks { cls: "1".into(), sizes: vec![rng.range(1, 5) as u32], star: false },
            Rule::WChunks { cls: "out".into(), sizes: vec![rng.range(1, 5) as u32], star: false },
        ];
        match rng.below(4) {
            0 => rules.push(Rule::WErr { cls: "1".into(), call: rng.range(1, 12) as u32, errno: *rng.pick(&[ENOSPC, EPIPE, EIO, EAGAIN]), times: 1 }),
            1 => rules.push(Rule::WErr { cls: "out".into(), call: rng.range(1, 12) as u32, errno: ENOSPC, times: 1 }),
            2 => rules.push(Rule::RErr { cls: "0".into(), call: rng.range(1, 12) as u32, errno: EIO, times: 1 }),
            _ => {
                rules.push(Rule::RErr { cls: "0".into(), call: rng.range(1, 6) as u32, errno: EIO, times: 1 });
                rules.push(Rule::WErr { cls: "1".into(), call: rng.range(1, 3) as u32, errno: EPIPE, times: 1 });
            }
        }
        out.push(("multi:chunking+hard".into(), with_rules(sc, rules)));
    }
    out
}

// ---------------------------------------------------------------------------------------
// Pipelines: stage A's stdout bytes become stage B's stdin under a chunk plan.
// ---------------------------------------------------------------------------------------

pub fn pipeline_b(rng: &mut Rng, a_stdout: &[u8]) -> Scenario {
    let mut hint = vec![];
    if let Ok(serde_json::Value::Object(o)) = serde_json::from_slice::<serde_json::Value>(a_stdout) {
        hint.extend(o.keys().cloned());
    }
    let world = match merge_inputs(Some(a_stdout), &[]) {
        InputsResult::Ok(m) => m,
        InputsResult::Malformed(_) => vec![],
    };
    let script = gen_script(rng, &hint, &world);
    let mut plan = Plan::canonical();
    plan.rules.push(Rule::RChunks { cls: "0".into(), sizes: (0..8).map(|_| rng.range(1, 6) as u32).collect(), star: false });
    Scenario {
        script,
        mode: if rng.chance(1, 2) { Mode::File } else { Mode::Inline },
        out: OutDest::Stdout,
        stdin: StdinKind::Pipe(a_stdout.to_vec()),
        stdout: StdoutKind::Pipe,
        flags: vec![],
        plan,
        aslr_off: false,
        long_flags: false,
        script_style: 0,
        flag_eq: false,
        script_first: false,
        path_style: 0,
        script_bad_byte: None,
        stdin_bad_byte: None,
    }
}

// ---------------------------------------------------------------------------------------
// Batch
// ---------------------------------------------------------------------------------------

#[derive(Default)]
pub struct Batch {
    pub c: Counters,
    pub violations: Vec<(u64, Scenario, Viol)>,
    pub samples: Vec<(u64, serde_json::Value)>,
    pub run_hashes: std::collections::BTreeMap<u64, u64>,
}
impl Agg for Batch {
    fn merge(&mut self, o: Self) {
        self.c.merge(o.c);
        self.violations.extend(o.violations);
        self.samples.extend(o.samples);
        self.run_hashes.extend(o.run_hashes);
    }
}

pub fn cli_path() -> String {
    std::env::var("VERIF_CLI").unwrap_or_else(|_| format!("{}/.build/cli-target/debug/blots", verif_dir()))
}
pub fn shim_path() -> String {
    std::env::var("VERIF_SHIM").unwrap_or_else(|_| format!("{}/.build/libsimio.so", verif_dir()))
}

pub fn result_hash(rr: &RunResult) -> u64 {
    let mut h = fnv64(&rr.stdout);
    h = crate::prng::mix(h, fnv64(&rr.stderr));
    h = crate::prng::mix(h, fnv64(rr.log_text.as_bytes()));
    h = crate::prng::mix(h, rr.exit.unwrap_or(-1) as u64);
    h = crate::prng::mix(h, fnv64(rr.out_file.as_deref().unwrap_or(b"<none>")));
    h
}

fn input_shape(sc: &Scenario) -> String {
    let st = match &sc.stdin {
        StdinKind::DevNull => "null",
        StdinKind::Pipe(b) if b.iter().all(|c| c.is_ascii_whitespace()) => "pipe-empty",
        StdinKind::Pipe(_) => "pipe",
        StdinKind::File(_) => "file",
        StdinKind::Dir => "dir",
    };
    format!("{}+{}flags", st, sc.flags.len())
}

fn fail_pos(sc: &Scenario) -> String {
    match sc.script.iter().position(|s| matches!(s, CStmt::Fail(..) | CStmt::Syntax(_))) {
        None => "none".into(),
        Some(0) => "first".into(),
        Some(i) if i + 1 == sc.script.len() => "last".into(),
        Some(_) => "mid".into(),
    }
}

pub fn run_and_judge(sc: &Scenario, family: &str, run: u64, agg: &mut Batch) -> (RunResult, Judged) {
    let rr = run_cli(&cli_path(), &shim_path(), &invocation(sc));
    let j = judge(sc, &rr);
    agg.c.inc("cli_runs");
    agg.c.add("simulated_syscalls", rr.log.len() as u64);
    agg.c.inc(&format!("family:{}", family.split(':').take(2).collect::<Vec<_>>().join(":")));
    for b in &j.benign_fired {
        agg.c.inc(&format!("fired:{}", b));
    }
    for h in &j.hard_kinds {
        agg.c.inc(&format!("fired:{}", h));
    }
    if !j.benign_fired.is_empty() || j.hard_fired {
        let pos = rr.log.iter().position(|e| e.ret < 0).map(|p| p.to_string()).unwrap_or_else(|| "-".into());
        agg.c.distinct("c19_tuples", &format!("{:?}|{}|{}|{}|{}", sc.mode, input_shape(sc), fail_pos(sc), family, pos));
    }
    agg.c.distinct("log_shapes", &rr.log.iter().map(|e| format!("{}{}{}", &e.op[..1], e.cls, if e.ret < 0 { "!" } else { "" })).collect::<String>());
    if rr.exit == Some(101) {
        agg.c.inc("exit101_panics");
    }
    if j.model_unknown {
        agg.c.inc("model_unknown_runs");
    }
    if let Some(v) = &j.viol {
        agg.violations.push((run, sc.clone(), v.clone()));
    }
    (rr, j)
}

pub fn run_one(seed: u64, run: u64, agg: &mut Batch, keep_hashes: bool) {
    let mut rng = Rng::derive(seed, "c19", run);
    let sc = gen_scenario(&mut rng);
    let mut h: u64 = 0;
    let (rr0, j0) = run_and_judge(&sc, "base:fault-free", run, agg);
    h = crate::prng::mix(h, result_hash(&rr0));
    agg.c.inc("scenarios");
    agg.c.inc(&format!("mode:{:?}", sc.mode));
    agg.c.inc(if j0.expect_success { "expect:success" } else { "expect:failure" });
    if run < 3 {
        agg.samples.push((
            run,
            json!({
                "run": run,
                "argv": invocation(&sc).argv,
                "stdin": format!("{:?}", sc.stdin).chars().take(200).collect::<String>(),
                "script": script_src(&sc.script),
                "exit": rr0.exit,
                "stdout": String::from_utf8_lossy(&rr0.stdout),
                "event_log": rr0.log_text.lines().collect::<Vec<_>>(),
            }),
        ));
    }
    if j0.viol.is_none() {
        let plans = enumerate_plans(&sc, &rr0, &mut rng);
        for (family, s) in plans {
            let (rr, _j) = run_and_judge(&s, &family, run, agg);
            h = crate::prng::mix(h, result_hash(&rr));
        }
        // pipeline: A's stdout -> B's stdin
        if sc.out == OutDest::Stdout && rng.chance(1, 2) {
            let b = pipeline_b(&mut rng, &rr0.stdout);
            let (rrb, _) = run_and_judge(&b, "pipeline:stage-b", run, agg);
            h = crate::prng::mix(h, result_hash(&rrb));
            agg.c.inc("pipelines");
        }
    }
    if keep_hashes {
        agg.run_hashes.insert(run, h);
    }
}

// ---------------------------------------------------------------------------------------
// Shrink / signature / replay
// ---------------------------------------------------------------------------------------

pub fn violates(sc: &Scenario, clause: &str) -> bool {
    let rr = run_cli(&cli_path(), &shim_path(), &invocation(sc));
    matches!(judge(sc, &rr).viol, Some(v) if v.clause == clause)
}

/// A `rebind` failing statement (`n = 2`) is only known to fail while an earlier statement
/// binds n; the shrinker must not take that statement away.
fn script_valid(script: &[CStmt]) -> bool {
    for (i, s) in script.iter().enumerate() {
        if let CStmt::Fail(class, text) = s {
            if class == "rebind" {
                let name = text.split(" =").next().unwrap_or("").trim().to_string();
                if !script[..i].iter().any(|p| matches!(p, CStmt::Bind(n, _) | CStmt::OutBind(n, _) if *n == name)) {
                    return false;
                }
            }
        }
    }
    true
}

pub fn shrink(sc: &Scenario, clause: &str) -> Scenario {
    let mut cur = sc.clone();
    let mut budget = 300;
    loop {
        let mut progress = false;
        let mut try_c = |c: Scenario, cur: &mut Scenario, progress: &mut bool, budget: &mut i32| {
            if *budget <= 0 || c == *cur || !script_valid(&c.script) {
                return;
            }
            *budget -= 1;
            if violates(&c, clause) {
                *cur = c;
                *progress = true;
            }
        };
        // drop rules
        let mut i = 0;
        while i < cur.plan.rules.len() {
            let mut c = cur.clone();
            c.plan.rules.remove(i);
            let before = cur.plan.rules.len();
            try_c(c, &mut cur, &mut progress, &mut budget);
            if cur.plan.rules.len() == before {
                i += 1;
            }
        }
        // collapse chunk lists
        for i in 0..cur.plan.rules.len() {
            let mut c = cur.clone();
            match &mut c.plan.rules[i] {
                Rule::RChunks { sizes, star, .. } | Rule::WChunks { sizes, star, .. } => {
                    sizes.clear();
                    *star = true;
                }
                _ => continue,
            }
            try_c(c, &mut cur, &mut progress, &mut budget);
        }
        // drop statements
        let mut i = cur.script.len();
        while i > 0 {
            i -= 1;
            if cur.script.len() <= 1 {
                break;
            }
            let mut c = cur.clone();
            c.script.remove(i);
            try_c(c, &mut cur, &mut progress, &mut budget);
        }
        // drop flags, simplify stdin, destination, mode
        let mut i = cur.flags.len();
        while i > 0 {
            i -= 1;
            let mut c = cur.clone();
            c.flags.remove(i);
            try_c(c, &mut cur, &mut progress, &mut budget);
        }
        {
            let mut c = cur.clone();
            if c.mode != Mode::EvalStdin {
                c.stdin = StdinKind::DevNull;
            }
            try_c(c, &mut cur, &mut progress, &mut budget);
            let mut c = cur.clone();
            c.out = OutDest::Stdout;
            try_c(c, &mut cur, &mut progress, &mut budget);
            let mut c = cur.clone();
            c.mode = Mode::Inline;
            if sc.mode == Mode::EvalStdin {
                c.stdin = StdinKind::DevNull;
            }
            try_c(c, &mut cur, &mut progress, &mut budget);
            let mut c = cur.clone();
            c.plan.seed = 0;
            c.aslr_off = false;
            c.long_flags = false;
            try_c(c, &mut cur, &mut progress, &mut budget);
        }
        if !progress || budget <= 0 {
            break;
        }
    }
    cur
}

pub fn signature(sc: &Scenario, v: &Viol) -> String {
    let classes: Vec<String> = sc
        .script
        .iter()
        .map(|s| match s {
            CStmt::Bind(..) => "bind".to_string(),
            CStmt::OutBind(..) => "outbind".to_string(),
            CStmt::Out(_) => "out".to_string(),
            CStmt::OutVisible(_) => "out-visible".to_string(),
            CStmt::Fail(c, _) => format!("fail:{}", c),
            CStmt::Syntax(_) => "syntax".to_string(),
            CStmt::Comment(_) => "comment".to_string(),
        })
        .collect();
    let rules: Vec<String> = sc
        .plan
        .rules
        .iter()
        .map(|r| match r {
            Rule::RChunks { cls, .. } => format!("rchunks:{}", cls),
            Rule::WChunks { cls, .. } => format!("wchunks:{}", cls),
            Rule::RErr { cls, errno, .. } => format!("rerr:{}:{}", cls, errno),
            Rule::WErr { cls, errno, .. } => format!("werr:{}:{}", cls, errno),
            Rule::REof { cls, .. } => format!("reof:{}", cls),
            Rule::OpenErr { cls, errno } => format!("openerr:{}:{}", cls, errno),
            Rule::Env { name, .. } => format!("env:{}", name),
            Rule::UnEnv { name } => format!("unenv:{}", name),
        })
        .collect();
    format!("{}|{}|{}", v.clause, classes.join(","), rules.join(","))
}

pub fn replay_doc(sc: &Scenario, v: &Viol, rr: &RunResult, seed: u64, run: u64) -> serde_json::Value {
    let inv = invocation(sc);
    json!({
        "property": "C19",
        "engine": "c19",
        "verif_seed": seed,
        "run": run,
        "scenario": sc,
        "argv": inv.argv,
        "script": styled_source(sc),
        "plan": sc.plan.text(&inv.src_suffix, &inv.out_suffix),
        "violation": { "clause": v.clause, "detail": v.detail },
        "signature": signature(sc, v),
        "history": {
            "exit": rr.exit, "signal": rr.signal,
            "stdout": String::from_utf8_lossy(&rr.stdout),
            "stderr": String::from_utf8_lossy(&rr.stderr),
            "out_file": rr.out_file.as_ref().map(|b| String::from_utf8_lossy(b).to_string()),
            "event_log": rr.log_text.lines().collect::<Vec<_>>(),
        },
        "history_hash": format!("{:016x}", result_hash(rr)),
    })
}

pub fn replay(path: &str) -> i32 {
    let Ok(s) = std::fs::read_to_string(path) else {
        eprintln!("HARNESS-ERROR: cannot read {}", path);
        return 2;
    };
    let Ok(doc) = serde_json::from_str::<serde_json::Value>(&s) else {
        eprintln!("HARNESS-ERROR: {} is not JSON", path);
        return 2;
    };
    let sc: Scenario = match serde_json::from_value(doc["scenario"].clone()) {
        Ok(s) => s,
        Err(e) => {
            eprintln!("HARNESS-ERROR: bad scenario in {}: {}", path, e);
            return 2;
        }
    };
    let inv = invocation(&sc);
    println!("argv: {:?}", inv.argv);
    println!("script:\n{}", script_src(&sc.script));
    println!("plan:\n{}", sc.plan.text(&inv.src_suffix, &inv.out_suffix));
    let rr = run_cli(&cli_path(), &shim_path(), &inv);
    println!("exit={:?} signal={:?}\nstdout={:?}\nstderr={:?}\nout_file={:?}", rr.exit, rr.signal, String::from_utf8_lossy(&rr.stdout), String::from_utf8_lossy(&rr.stderr), rr.out_file.as_ref().map(|b| String::from_utf8_lossy(b).to_string()));
    println!("event log:\n{}", rr.log_text);
    let j = judge(&sc, &rr);
    crate::cli::cleanup_sandboxes();
    let want = doc["history_hash"].as_str().unwrap_or("");
    let got = format!("{:016x}", result_hash(&rr));
    match j.viol {
        Some(v) => {
            println!("VIOLATION property=C19 replay={}", path);
            println!("  clause={} detail={}", v.clause, v.detail);
            if !want.is_empty() && want != got {
                eprintln!("note: history hash differs from the recorded one (recorded {} got {}): the code under test changed or the run is not deterministic", want, got);
            }
            1
        }
        None => {
            println!("no violation on replay (history hash {})", got);
            0
        }
    }
}

pub fn fixed_corpus() -> Vec<(String, Scenario)> {
    let base = |script: Vec<CStmt>| Scenario {
        script,
        mode: Mode::Inline,
        out: OutDest::Stdout,
        stdin: StdinKind::DevNull,
        stdout: StdoutKind::Pipe,
        flags: vec![],
        plan: Plan::canonical(),
        aslr_off: false,
        long_flags: false,
        script_style: 0,
        flag_eq: false,
        script_first: false,
        path_style: 0,
        script_bad_byte: None,
        stdin_bad_byte: None,
    };
    let mut v = vec![
        ("F3-output-builtin".to_string(), base(vec![CStmt::OutVisible("sum".into())])),
        ("F3-output-constants".to_string(), base(vec![CStmt::OutBind("p".into(), CE::Lit(JV::Num(1.0))), CStmt::OutVisible("constants".into())])),
    ];
    // F4: a piped inputs document that cannot be read (not valid UTF-8; a read error) was
    // silently dropped and the run exited 0 without the inputs
    {
        let mut a = base(vec![CStmt::OutBind("x".into(), CE::InDot("a".into()))]);
        a.stdin = StdinKind::Pipe(b"{\"a\": 1}".to_vec());
        a.stdin_bad_byte = Some(6);
        v.push(("F4-stdin-not-utf8".to_string(), a.clone()));
        // `12` arrives as `1`, then the read fails: the prefix is a document of its own
        let mut b = base(vec![CStmt::OutBind("x".into(), CE::InDot("value_1".into()))]);
        b.stdin = StdinKind::Pipe(b"12".to_vec());
        b.plan.rules.push(Rule::RChunks { cls: "0".into(), sizes: vec![1], star: true });
        b.plan.rules.push(Rule::RErr { cls: "0".into(), call: 2, errno: 5, times: 1 });
        v.push(("F4-stdin-read-error".to_string(), b));
    }
    let dir = format!("{}/regressions", verif_dir());
    if let Ok(rd) = std::fs::read_dir(&dir) {
        let mut files: Vec<_> = rd.filter_map(|e| e.ok()).map(|e| e.path()).collect();
        files.sort();
        for p in files {
            let name = p.file_name().unwrap().to_string_lossy().to_string();
            if !name.starts_with("C19-") || !name.ends_with(".json") {
                continue;
            }
            let Ok(txt) = std::fs::read_to_string(&p) else { continue };
            let Ok(doc) = serde_json::from_str::<serde_json::Value>(&txt) else {
                eprintln!("HARNESS-ERROR: {} is not JSON", p.display());
                std::process::exit(2);
            };
            match serde_json::from_value::<Scenario>(doc["scenario"].clone()) {
                Ok(sc) => v.push((name, sc)),
                Err(e) => {
                    eprintln!("HARNESS-ERROR: bad scenario in {}: {}", p.display(), e);
                    std::process::exit(2);
                }
            }
        }
    }
    v
}

pub fn main_batch(tier: &str, scenarios: u64) -> i32 {
    let seed = verif_seed();
    let t0 = crate::seams::real_monotonic_ns();
    println!("VERIF_SEED={} engine=c19 tier={} scenarios={} workers={} cli={}", seed, tier, scenarios, workers(), cli_path());
    if !std::path::Path::new(&cli_path()).exists() || !std::path::Path::new(&shim_path()).exists() {
        eprintln!("HARNESS-ERROR: CLI or shim missing ({} / {})", cli_path(), shim_path());
        return 2;
    }
    let keep = std::env::var("VERIF_HASHES").is_ok();
    let mut agg: Batch = run_pool(scenarios, workers(), move |i, a: &mut Batch| run_one(seed, i, a, keep));
    let mut corpus_viols = vec![];
    let corpus = fixed_corpus();
    for (k, (name, sc)) in corpus.iter().enumerate() {
        let (_rr, j) = run_and_judge(sc, "corpus", 1_000_000_000 + k as u64, &mut agg);
        if let Some(v) = j.viol {
            println!("corpus scenario {} violates: {} ({})", name, v.clause, v.detail);
            corpus_viols.push((1_000_000_000 + k as u64, sc.clone(), v));
        }
    }
    println!("c19: fixed corpus: {} scenarios, {} violating", corpus.len(), corpus_viols.len());
    let mut viols = std::mem::take(&mut agg.violations);
    viols.retain(|v| v.0 < 1_000_000_000);
    viols.sort_by_key(|v| v.0);
    corpus_viols.extend(viols);
    let mut out: Vec<Violation> = vec![];
    let mut seen = BTreeSet::new();
    for (run, sc, v) in corpus_viols.iter() {
        let pre = format!("{}|{}", v.clause, fail_pos(sc));
        if !seen.insert(pre) || out.len() >= 12 {
            continue;
        }
        let min = shrink(sc, &v.clause);
        let rr = run_cli(&cli_path(), &shim_path(), &invocation(&min));
        let mv = judge(&min, &rr).viol.unwrap_or_else(|| v.clone());
        let sig = signature(&min, &mv);
        let name = format!("C19-{}-{}-{:08x}", seed, run, fnv64(sig.as_bytes()) as u32);
        let path = write_replay(&name, &replay_doc(&min, &mv, &rr, seed, *run));
        out.push(Violation { property: "C19".into(), clause: mv.clause.clone(), detail: mv.detail.clone(), signature: sig, run: *run, replay: Some(path) });
    }
    crate::cli::cleanup_sandboxes();
    let wall = (crate::seams::real_monotonic_ns() - t0) as f64 / 1e9;
    let runs = agg.c.get("cli_runs");
    let mut extra = serde_json::Map::new();
    extra.insert("scenarios".into(), json!(agg.c.get("scenarios")));
    extra.insert("simulated_runs".into(), json!(runs));
    extra.insert("runs_per_hour".into(), json!((runs as f64 / wall.max(1e-9) * 3600.0) as u64));
    extra.insert("simulated_syscalls".into(), json!(agg.c.get("simulated_syscalls")));
    extra.insert("simulated_time_note".into(), json!("the CLI has no timers; simulated time is counted in intercepted syscalls (simulated_syscalls)"));
    extra.insert("counters".into(), agg.c.to_json());
    extra.insert("distinct_event_log_shapes".into(), json!(agg.c.distinct_count("log_shapes")));
    {
        // fault kinds that actually fired (from the shim's event log), by kind
        let mut fired = serde_json::Map::new();
        for (k, v) in &agg.c.n {
            if let Some(kind) = k.strip_prefix("fired:") {
                fired.insert(kind.to_string(), json!(v));
            }
        }
        extra.insert("faults_fired".into(), serde_json::Value::Object(fired));
        let mut fam = serde_json::Map::new();
        for (k, v) in &agg.c.n {
            if let Some(kind) = k.strip_prefix("family:") {
                fam.insert(kind.to_string(), json!(v));
            }
        }
        extra.insert("plan_families_run".into(), serde_json::Value::Object(fam));
        extra.insert("seeds".into(), json!(agg.c.get("scenarios")));
        extra.insert("model_unknown_runs".into(), json!(agg.c.get("model_unknown_runs")));
    }
    extra.insert(
        "real_vs_stub".into(),
        json!({
            "real": ["blots binary built from the working tree (dev profile, hooks off)", "clap argument parsing", "blots/src/main.rs end to end", "blots-core", "std I/O", "glibc", "kernel objects: pipes, regular files, /dev/null, /dev/full, directories"],
            "simulated": ["results of read/write/open on fds 0,1,2, the source file and the --output file (LD_PRELOAD plan)", "getrandom", "clock_gettime", "ASLR on/off"],
            "not_run": ["interactive REPL", "--completions", "--profile", "--format"],
        }),
    );
    if keep {
        let h: Vec<String> = agg.run_hashes.iter().map(|(k, v)| format!("{}:{:016x}", k, v)).collect();
        let _ = std::fs::write(std::env::var("VERIF_HASHES").unwrap(), h.join("\n") + "\n");
    }
    let mut samples = std::mem::take(&mut agg.samples);
    samples.sort_by_key(|s| s.0);
    Evidence {
        property: "C19".into(),
        tier: tier.into(),
        seed,
        level: "fault_enumeration".into(),
        evaluations: runs,
        distinct_nontrivial: agg.c.distinct_count("c19_tuples"),
        rule: "A case is one execution of the real blots binary on a generated (script, inputs, invocation mode, destination) scenario under one \
               syscall plan. For each sampled scenario the fault-free event log is recorded, then every benign plan family (1/2/random-byte \
               read and write chunking, EINTR x1..3 at every call position, hash seed/clock/ASLR) and every single hard fault (EIO at every read \
               position, EOF after every stdin byte up to 40 positions, ENOSPC/EPIPE/EIO at every stdout write, 5 open errors and ENOSPC/EIO at every \
               write of the --output file, EIO on stderr, real /dev/full, missing directory, directory targets) is executed, plus seeded multi-fault \
               plans and pipelines. distinct_nontrivial counts distinct (mode, input-set shape, failing position, fault family, event-log position \
               of the first failing call) tuples in which a planned fault actually fired."
            .into(),
        samples: samples.into_iter().map(|s| s.1).collect(),
        extra,
        assumptions: vec![
            "the model M covers a sub-language (literals, inputs.k, #k, ??, integer +, lists, records, bindings, outputs)".into(),
            "JSON text -> value uses serde_json in the harness (what a JSON numeral denotes is C06/C16's subject)".into(),
            "faults are injected at the libc boundary of the dynamically linked binary".into(),
        ],
        wall_s: wall,
        violations: out.len() as u64,
    }
    .write();
    println!(
        "c19: scenarios={} cli_runs={} simulated_syscalls={} distinct_fault_tuples={} log_shapes={} exit101={} wall={:.1}s",
        agg.c.get("scenarios"),
        runs,
        agg.c.get("simulated_syscalls"),
        agg.c.distinct_count("c19_tuples"),
        agg.c.distinct_count("log_shapes"),
        agg.c.get("exit101_panics"),
        wall
    );
    let code = report("C19", &out);
    if code == 0 {
        println!("C19 OK");
    }
    code
}

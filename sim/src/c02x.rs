//! Engine c02x — the cross-process half of C02: the same program with the same inputs, run by
//! the real `blots` binary several times under plans that differ only in what the environment
//! chooses (hash seed, clock, ASLR, stdin chunking, invocation mode), must produce byte-identical
//! stdout / --output file and the same exit status, and must agree with the in-process
//! reference execution (which cross-checks the statement-loop stub against the real main.rs).

use crate::c02::{Batch, Viol, execute, reference_scenario};
use crate::cli::*;
use crate::hast::*;
use crate::pgen::*;
use crate::prng::{Rng, fnv64, mix};
use crate::session::Status;
use serde::{Deserialize, Serialize};
use serde_json::json;

#[derive(Clone, Debug, PartialEq, Serialize, Deserialize)]
pub struct XPlan {
    pub plan: Plan,
    pub aslr_off: bool,
    /// "file" | "inline" | "eval"
    pub mode: String,
    pub inputs_via_stdin: bool,
    pub use_output_file: bool,
    /// environment variables of the process (must not influence any output)
    #[serde(default)]
    pub env: Vec<(String, String)>,
}

#[derive(Clone, Debug, PartialEq, Serialize, Deserialize)]
pub struct XScenario {
    pub program: Vec<Stmt>,
    pub inputs_json: String,
    pub plans: Vec<XPlan>,
}

pub fn source(program: &[Stmt]) -> String {
    let mut s = program.iter().map(show_stmt).collect::<Vec<_>>().join("\n");
    s.push('\n');
    s
}

fn invocation(sc: &XScenario, xp: &XPlan) -> Invocation {
    let src = source(&sc.program);
    let mut argv = vec![];
    let mut files = vec![];
    let mut stdin = StdinKind::DevNull;
    let has_inputs = sc.inputs_json.trim() != "{}";
    if has_inputs {
        if xp.inputs_via_stdin && xp.mode != "eval" {
            stdin = StdinKind::Pipe(sc.inputs_json.clone().into_bytes());
        } else {
            argv.push("-i".to_string());
            argv.push(sc.inputs_json.clone());
        }
    }
    let mut out_path = None;
    if xp.use_output_file {
        argv.push("-o".into());
        argv.push("out.json".into());
        out_path = Some("out.json".to_string());
    }
    match xp.mode.as_str() {
        "file" => {
            files.push(("prog.blots".to_string(), src.into_bytes()));
            argv.push("prog.blots".into());
        }
        "inline" => {
            // a script that begins with `-` would be taken for an option: the user writes `--`
            if src.starts_with('-') {
                argv.push("--".into());
            }
            argv.push(src)
        }
        _ => {
            argv.push("-e".into());
            stdin = StdinKind::Pipe(src.into_bytes());
        }
    }
    Invocation {
        argv,
        stdin,
        stdout: StdoutKind::Pipe,
        files,
        dirs: vec![],
        plan: Some(xp.plan.clone()),
        src_suffix: "prog.blots".into(),
        out_suffix: "out.json".into(),
        aslr_off: xp.aslr_off,
        out_path,
        extra_env: xp.env.clone(),
    }
}

pub fn gen_xscenario(rng: &mut Rng) -> XScenario {
    let n = rng.range(3, 10) as usize;
    let mut r2 = rng.fork();
    let mut g = PGen::new(&mut r2, "p");
    g.allow_depth_probe = false; // the dev-profile CLI has an 8 MiB main stack (C18's subject)
    let prog = g.program(n, true);
    let mut program: Vec<Stmt> = prog.into_iter().map(|p| p.0).collect();
    // make sure something is declared as output: re-declare up to three bound names
    let names: Vec<String> = g.vars.iter().map(|v| v.0.clone()).collect();
    if rng.chance(1, 2) {
        // every bound name is declared, so that every value of the program reaches the object
        for n in names.iter().take(16) {
            program.push(Stmt::Output(n.clone(), None));
        }
    } else {
        for _ in 0..rng.range(1, 3) {
            if !names.is_empty() {
                program.push(Stmt::Output(rng.pick(&names).clone(), None));
            }
        }
    }
    let inputs_json = crate::c02::gen_inputs(rng);
    let mut plans = vec![XPlan { plan: Plan::canonical(), aslr_off: false, mode: "file".into(), inputs_via_stdin: false, use_output_file: false, env: vec![] }];
    for _ in 0..rng.range(2, 4) {
        let mut p = Plan::canonical();
        p.seed = 1 + rng.next_u64() % 1_000_000_007;
        p.clock_real = rng.range(-100_000, 4_000_000_000) * 1_000_000_000;
        p.clock_mono = rng.range(0, 1_000_000) * 1_000_000;
        p.clock_step = rng.range(1, 1_000_000_000);
        if rng.chance(1, 2) {
            p.rules.push(Rule::RChunks { cls: "0".into(), sizes: (0..6).map(|_| rng.range(1, 7) as u32).collect(), star: false });
            p.rules.push(Rule::RChunks { cls: "src".into(), sizes: (0..6).map(|_| rng.range(1, 9) as u32).collect(), star: true });
            p.rules.push(Rule::WChunks { cls: "1".into(), sizes: vec![rng.range(1, 9) as u32], star: false });
        }
        plans.push(XPlan {
            plan: p,
            aslr_off: rng.chance(1, 2),
            mode: (*rng.pick(&["file", "inline", "eval"])).to_string(),
            inputs_via_stdin: rng.chance(1, 2),
            use_output_file: rng.chance(1, 4),
            env: {
                let mut e = vec![];
                for (k, vals) in [
                    ("NO_COLOR", &["<unset>", "1", ""][..]),
                    ("TERM", &["dumb", "xterm-256color", "<unset>"][..]),
                    ("LANG", &["C", "de_DE.UTF-8", "tr_TR.UTF-8"][..]),
                    ("LC_ALL", &["C", "en_US.UTF-8", "<unset>"][..]),
                    ("TZ", &["UTC", "Asia/Kolkata", "America/St_Johns"][..]),
                    ("HOME", &["/nonexistent", "/tmp"][..]),
                    ("RUST_BACKTRACE", &["1", "0", "<unset>"][..]),
                    ("BLOTS_DEBUG", &["1", "<unset>"][..]),
                    ("COLUMNS", &["20", "200"][..]),
                ] {
                    if rng.chance(1, 2) {
                        e.push((k.to_string(), (*rng.pick(vals)).to_string()));
                    }
                }
                e
            },
        });
    }
    XScenario { program, inputs_json, plans }
}

pub struct XExec {
    pub results: Vec<RunResult>,
    pub hash: u64,
    /// plans derived from the canonical run's event log: one environment variable the program
    /// looked at, set to something else (results[sc.plans.len()..] belong to these)
    pub extra: Vec<XPlan>,
}

/// Environment variables the process asked for in the canonical run, each given two other
/// values: whatever the program reads from its environment must not reach a value or an output.
fn env_plans(sc: &XScenario, r0: &RunResult) -> Vec<XPlan> {
    const VALUES: &[&str] = &["de_DE.UTF-8", "fr_FR.UTF-8", "1", "0", "", "true", "C", "always", "tr_TR", "80", "xx"];
    let mut names: Vec<String> = vec![];
    for e in &r0.log {
        if e.op == "getenv" && !names.contains(&e.cls) && !matches!(e.cls.as_str(), "LD_PRELOAD" | "SIMIO_PLAN" | "SIMIO_LOG" | "PATH") {
            names.push(e.cls.clone());
        }
    }
    names.truncate(12);
    let mut out = vec![];
    for n in names {
        let h = fnv64(format!("{}|{}", n, source(&sc.program)).as_bytes()) as usize;
        // one locale-like value, one switch-like value, one of anything
        let picks = [["de_DE.UTF-8", "fr_FR.UTF-8", "tr_TR"][h % 3], ["1", "0", "true", ""][(h / 3) % 4], VALUES[(h / 12) % VALUES.len()]];
        for v in picks {
            let mut xp = sc.plans[0].clone();
            xp.plan.rules.push(Rule::Env { name: n.clone(), value: v.to_string() });
            out.push(xp);
        }
    }
    out
}

pub fn xexecute(sc: &XScenario, cli: &str, shim: &str) -> XExec {
    let mut results = vec![];
    let mut h = 0u64;
    for xp in &sc.plans {
        let rr = run_cli(cli, shim, &invocation(sc, xp));
        h = mix(h, crate::c19::result_hash(&rr));
        results.push(rr);
    }
    let extra = if results.is_empty() { vec![] } else { env_plans(sc, &results[0]) };
    for xp in &extra {
        let rr = run_cli(cli, shim, &invocation(sc, xp));
        h = mix(h, crate::c19::result_hash(&rr));
        results.push(rr);
    }
    XExec { results, hash: h, extra }
}

/// The emitted object of a run: stdout, or the --output file.
fn emitted(xp: &XPlan, rr: &RunResult) -> Vec<u8> {
    if xp.use_output_file {
        let mut v = rr.out_file.clone().unwrap_or_default();
        v.push(b'\n'); // println! adds the newline on stdout; the file has none
        v
    } else {
        rr.stdout.clone()
    }
}

pub fn xjudge(sc: &XScenario, ex: &XExec) -> Option<Viol> {
    let all_plans: Vec<&XPlan> = sc.plans.iter().chain(ex.extra.iter()).collect();
    let r0 = &ex.results[0];
    for (k, rr) in ex.results.iter().enumerate() {
        if rr.timed_out {
            return Some(Viol { clause: "cli-no-termination".into(), detail: format!("plan {} did not terminate", k) });
        }
    }
    let ok0 = r0.exit == Some(0);
    for (k, rr) in ex.results.iter().enumerate().skip(1) {
        let okk = rr.exit == Some(0);
        if ok0 != okk {
            return Some(Viol {
                clause: "cli-status-divergence".into(),
                detail: format!("exit {:?} under the canonical plan, {:?} under plan {} ({:?})", r0.exit, rr.exit, k, all_plans[k]),
            });
        }
        if ok0 {
            let a = emitted(&sc.plans[0], r0);
            let b = emitted(all_plans[k], rr);
            if a != b {
                return Some(Viol {
                    clause: "cli-output-divergence".into(),
                    detail: format!("outputs differ between the canonical plan and plan {}: {:?} vs {:?}", k, String::from_utf8_lossy(&a), String::from_utf8_lossy(&b)),
                });
            }
        }
    }
    // agreement with the in-process reference execution
    let refsc = reference_scenario(&sc.program, &sc.inputs_json);
    let rex = execute(&refsc);
    let items = &rex.threads[0].items;
    if items.iter().any(|i| i.status == Status::Panic || i.status == Status::NotRun) {
        return None;
    }
    let first_fail = items.iter().position(|i| i.status.failed());
    match first_fail {
        Some(j) => {
            if ok0 {
                return Some(Viol { clause: "cli-vs-inprocess".into(), detail: format!("statement {} fails in-process but the CLI exits 0", j) });
            }
        }
        None => {
            // all statements succeed in-process; the CLI may still refuse a non-portable output
            // ([output error]) - which the in-process session mirrors; with none of those an
            // ordinary error exit means the CLI failed a program that is fine
            if !ok0 && r0.exit == Some(1) && rex.threads[0].output_errors == 0 {
                let said = format!("{} {}", String::from_utf8_lossy(&r0.stdout), String::from_utf8_lossy(&r0.stderr));
                if !said.contains("[output error]") {
                    return Some(Viol {
                        clause: "cli-vs-inprocess".into(),
                        detail: format!("every statement succeeds in-process but the CLI exits 1: {}", said.chars().take(300).collect::<String>()),
                    });
                }
            }
            // when it exits 0 its object must list the same names
            if ok0 {
                let text = String::from_utf8_lossy(&emitted(&sc.plans[0], r0)).to_string();
                let keys = crate::c19model::top_level_keys(text.trim());
                let want: Vec<String> = rex.threads[0].outputs.iter().map(|o| o.0.clone()).collect();
                if keys.as_ref() != Some(&want) {
                    return Some(Viol { clause: "cli-vs-inprocess".into(), detail: format!("CLI emitted keys {:?}, in-process outputs are {:?}", keys, want) });
                }
            }
        }
    }
    None
}

pub fn xsignature(v: &Viol) -> String {
    format!("{}|cli", v.clause)
}

pub fn xreplay_doc(sc: &XScenario, v: &Viol, ex: &XExec, seed: u64, run: u64) -> serde_json::Value {
    json!({
        "property": "C02",
        "engine": "c02x",
        "verif_seed": seed,
        "run": run,
        "scenario": sc,
        "program_source": source(&sc.program),
        "violation": { "clause": v.clause, "detail": v.detail },
        "signature": xsignature(v),
        "history": ex.results.iter().map(|r| json!({"exit": r.exit, "stdout": String::from_utf8_lossy(&r.stdout), "stderr": String::from_utf8_lossy(&r.stderr).chars().take(400).collect::<String>()})).collect::<Vec<_>>(),
        "history_hash": format!("{:016x}", ex.hash),
    })
}

pub fn xshrink(sc: &XScenario, clause: &str, cli: &str, shim: &str) -> XScenario {
    let mut cur = sc.clone();
    let mut budget = 150;
    let still = |c: &XScenario, budget: &mut i32| -> bool {
        if *budget <= 0 {
            return false;
        }
        *budget -= 1;
        let ex = xexecute(c, cli, shim);
        matches!(xjudge(c, &ex), Some(v) if v.clause == clause)
    };
    loop {
        let mut progress = false;
        let mut k = cur.plans.len();
        while k > 1 {
            k -= 1;
            if cur.plans.len() <= 2 {
                break;
            }
            let mut c = cur.clone();
            c.plans.remove(k);
            if still(&c, &mut budget) {
                cur = c;
                progress = true;
            }
        }
        let mut i = cur.program.len();
        while i > 0 {
            i -= 1;
            if cur.program.len() <= 1 {
                break;
            }
            let mut c = cur.clone();
            c.program.remove(i);
            if still(&c, &mut budget) {
                cur = c;
                progress = true;
            }
        }
        for i in 0..cur.program.len() {
            let cands: Vec<Stmt> = match &cur.program[i] {
                Stmt::Expr(e) => shrink_candidates(e).into_iter().map(Stmt::Expr).collect(),
                Stmt::Output(n, Some(e)) => shrink_candidates(e).into_iter().map(|x| Stmt::Output(n.clone(), Some(x))).collect(),
                _ => vec![],
            };
            let cur_size = stmt_expr(&cur.program[i]).map(|e| size(&e)).unwrap_or(0);
            for cand in cands.into_iter().take(25) {
                if stmt_expr(&cand).map(|e| size(&e)).unwrap_or(0) >= cur_size {
                    continue;
                }
                let mut c = cur.clone();
                c.program[i] = cand;
                if still(&c, &mut budget) {
                    cur = c;
                    progress = true;
                    break;
                }
            }
        }
        if !progress || budget <= 0 {
            break;
        }
    }
    cur
}

pub fn xrun_one(seed: u64, run: u64, agg: &mut Batch, cli: &str, shim: &str, keep_hashes: bool) -> Option<(XScenario, Viol)> {
    let mut rng = Rng::derive(seed, "c02x", run);
    let sc = gen_xscenario(&mut rng);
    let ex = xexecute(&sc, cli, shim);
    agg.c.inc("x_programs");
    agg.c.add("x_cli_runs", ex.results.len() as u64);
    for (k, xp) in sc.plans.iter().enumerate().skip(1) {
        agg.c.distinct("x_hash_seeds", &xp.plan.seed.to_string());
        agg.c.inc(&format!("x_mode:{}", xp.mode));
        if xp.aslr_off {
            agg.c.inc("x_aslr_off");
        }
        if ex.results[k].log.iter().any(|e| (e.op == "read" || e.op == "write") && e.ret > 0 && e.ret < e.req) {
            agg.c.inc("x_fault_fired:short_transfer");
        }
    }
    if ex.results[0].exit == Some(0) {
        agg.c.inc("x_exit0");
        agg.c.distinct("nontrivial_pairs", &format!("cli|{:016x}", fnv64(&ex.results[0].stdout)));
    }
    if keep_hashes {
        agg.run_hashes.insert(1_000_000 + run, ex.hash);
    }
    if run < 1 {
        agg.samples.push((
            1_000_000 + run,
            json!({"engine": "c02x", "program": source(&sc.program), "plans": sc.plans.len(), "exit": ex.results[0].exit, "stdout": String::from_utf8_lossy(&ex.results[0].stdout)}),
        ));
    }
    xjudge(&sc, &ex).map(|v| (sc, v))
}

pub fn xreplay(path: &str, cli: &str, shim: &str) -> i32 {
    let Ok(s) = std::fs::read_to_string(path) else {
        eprintln!("HARNESS-ERROR: cannot read {}", path);
        return 2;
    };
    let Ok(doc) = serde_json::from_str::<serde_json::Value>(&s) else {
        eprintln!("HARNESS-ERROR: {} is not JSON", path);
        return 2;
    };
    let sc: XScenario = match serde_json::from_value(doc["scenario"].clone()) {
        Ok(s) => s,
        Err(e) => {
            eprintln!("HARNESS-ERROR: bad scenario in {}: {}", path, e);
            return 2;
        }
    };
    println!("program:\n{}", source(&sc.program));
    let ex = xexecute(&sc, cli, shim);
    for (k, r) in ex.results.iter().enumerate() {
        let xp = sc.plans.iter().chain(ex.extra.iter()).nth(k).unwrap();
        println!("plan {}: mode={} exit={:?} stdout={:?}", k, xp.mode, r.exit, String::from_utf8_lossy(&r.stdout));
    }
    crate::cli::cleanup_sandboxes();
    match xjudge(&sc, &ex) {
        Some(v) => {
            println!("VIOLATION property=C02 replay={}", path);
            println!("  clause={} detail={}", v.clause, v.detail);
            1
        }
        None => {
            println!("no violation on replay (history hash {:016x})", ex.hash);
            0
        }
    }
}

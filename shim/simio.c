// simio — LD_PRELOAD syscall simulator for the real `blots` binary.
//
// The simulator (blots-sim, engines c19 / c02x) writes a *plan* and this shim makes the
// process's I/O, entropy and clocks follow it exactly:
//
//   seed <u64>                          bytes returned by getrandom (hash seed of std HashMap)
//   clock <real_ns> <mono_ns> <step_ns> simulated CLOCK_REALTIME / CLOCK_MONOTONIC
//   path src|out <suffix>               classify files by path suffix (source file, --output file)
//   rchunks <cls> <n1,n2,...[,*]>       sizes of successive successful reads ('*' = whatever is asked;
//                                       a list without '*' repeats its last element)
//   wchunks <cls> <n1,n2,...[,*]>       same for writes (short writes)
//   rerr <cls> <call#> <errno> <times>  the call#-th read call on cls fails <times> consecutive times
//   werr <cls> <call#> <errno> <times>  same for write calls
//   reof <cls> <nbytes>                 the stream ends after nbytes have been delivered
//   openerr <cls> <errno>               opening the file of class src|out fails
//   env <NAME> <value>                  getenv(NAME) returns <value> (rest of the line)
//   unenv <NAME>                        getenv(NAME) returns NULL
//
// getenv() calls of the program are logged (op=getenv cls=<NAME> ret=1|0), so that the simulator
// learns from the fault-free run which variables the program looks at and can enumerate them.
//
//   cls := 0 | 1 | 2 | src | out
//
// Every intercepted call is appended to the event log (SIMIO_LOG), one line each. For pipes
// the shim loops until the planned chunk (without a plan: the requested size) is full or EOF,
// so chunk boundaries are the plan's, not the kernel's, and the run does not depend on when the
// feeder is scheduled.
//
// Everything is done with raw syscalls: no libc stdio, no malloc, no dlsym.

#define _GNU_SOURCE
#include <errno.h>
#include <fcntl.h>
#include <stdarg.h>
#include <stddef.h>
#include <stdint.h>
#include <string.h>
#include <sys/syscall.h>
#include <sys/types.h>
#include <sys/uio.h>
#include <time.h>
#include <unistd.h>

#define NCLS 5 /* 0,1,2 = std streams; 3 = src; 4 = out */
#define MAXCH 64
#define MAXERR 8

struct errrule { long call; int err; int times; };

static int active = 0;
static int logfd = -1;
static long seqno = 0;

static uint64_t seed = 0; static int have_seed = 0; static uint64_t seed_ctr = 0;
static int have_clock = 0; static int64_t clk_real, clk_mono, clk_step;

static char suffix[NCLS][256];
static int fdcls[1024];

static long rch[NCLS][MAXCH]; static int nrch[NCLS]; static int rch_star[NCLS]; static int rch_pos[NCLS];
static long wch[NCLS][MAXCH]; static int nwch[NCLS]; static int wch_star[NCLS]; static int wch_pos[NCLS];
static struct errrule rerr[NCLS][MAXERR]; static int nrerr[NCLS];
static struct errrule werr[NCLS][MAXERR]; static int nwerr[NCLS];
static long rcalls[NCLS], wcalls[NCLS];
static long reof[NCLS]; static int have_reof[NCLS]; static long rdelivered[NCLS];
static int openerr[NCLS];

#define MAXENV 32
static char envname[MAXENV][64]; static char envval[MAXENV][192]; static int envunset[MAXENV]; static int nenv = 0;

static long raw_write(int fd, const void *b, size_t n) { return syscall(SYS_write, fd, b, n); }
static long raw_read(int fd, void *b, size_t n) { return syscall(SYS_read, fd, b, n); }

static char *fmt_long(char *p, long v) {
  char tmp[24]; int i = 0; unsigned long u;
  if (v < 0) { *p++ = '-'; u = (unsigned long)(-(v + 1)) + 1; } else u = (unsigned long)v;
  do { tmp[i++] = '0' + (u % 10); u /= 10; } while (u);
  while (i) *p++ = tmp[--i];
  return p;
}
static char *fmt_str(char *p, const char *s) { while (*s) *p++ = *s++; return p; }

static const char *clsname(int c) {
  switch (c) { case 0: return "0"; case 1: return "1"; case 2: return "2"; case 3: return "src"; case 4: return "out"; }
  return "?";
}

static void logev(const char *op, int cls, long req, long ret, int err) {
  if (logfd < 0) return;
  char line[160]; char *p = line;
  p = fmt_str(p, "seq="); p = fmt_long(p, ++seqno);
  p = fmt_str(p, " op="); p = fmt_str(p, op);
  p = fmt_str(p, " cls="); p = fmt_str(p, clsname(cls));
  p = fmt_str(p, " req="); p = fmt_long(p, req);
  p = fmt_str(p, " ret="); p = fmt_long(p, ret);
  p = fmt_str(p, " errno="); p = fmt_long(p, err);
  *p++ = '\n';
  raw_write(logfd, line, p - line);
}

static int parse_cls(const char *s) {
  if (!strcmp(s, "0")) return 0;
  if (!strcmp(s, "1")) return 1;
  if (!strcmp(s, "2")) return 2;
  if (!strcmp(s, "src")) return 3;
  if (!strcmp(s, "out")) return 4;
  return -1;
}
static long parse_long(const char *s) {
  long v = 0; int neg = 0; if (*s == '-') { neg = 1; s++; }
  while (*s >= '0' && *s <= '9') { v = v * 10 + (*s - '0'); s++; }
  return neg ? -v : v;
}
static uint64_t parse_u64(const char *s) {
  uint64_t v = 0; while (*s >= '0' && *s <= '9') { v = v * 10 + (uint64_t)(*s - '0'); s++; } return v;
}
static void parse_chunks(const char *s, long *arr, int *n, int *star) {
  *n = 0; *star = 0;
  while (*s) {
    if (*s == '*') { *star = 1; break; }
    if (*n < MAXCH) arr[(*n)++] = parse_long(s);
    while (*s && *s != ',') s++;
    if (*s == ',') s++;
  }
}

static void parse_line(char *line) {
  if (!strncmp(line, "env ", 4) || !strncmp(line, "unenv ", 6)) {
    int un = line[0] == 'u';
    char *q = line + (un ? 6 : 4);
    if (nenv >= MAXENV) return;
    int i = 0; while (*q && *q != ' ' && i < 63) envname[nenv][i++] = *q++;
    envname[nenv][i] = 0;
    if (*q == ' ') q++;
    i = 0; while (!un && *q && i < 191) envval[nenv][i++] = *q++;
    envval[nenv][i] = 0;
    envunset[nenv] = un;
    nenv++;
    return;
  }
  char *tok[6]; int nt = 0; char *p = line;
  while (*p && nt < 6) {
    while (*p == ' ') p++;
    if (!*p) break;
    tok[nt++] = p;
    while (*p && *p != ' ') p++;
    if (*p) *p++ = 0;
  }
  if (nt == 0) return;
  if (!strcmp(tok[0], "seed") && nt >= 2) { seed = parse_u64(tok[1]); have_seed = 1; }
  else if (!strcmp(tok[0], "clock") && nt >= 4) { clk_real = parse_long(tok[1]); clk_mono = parse_long(tok[2]); clk_step = parse_long(tok[3]); have_clock = 1; }
  else if (!strcmp(tok[0], "path") && nt >= 3) { int c = parse_cls(tok[1]); if (c >= 3) { strncpy(suffix[c], tok[2], 255); } }
  else if (!strcmp(tok[0], "rchunks") && nt >= 3) { int c = parse_cls(tok[1]); if (c >= 0) parse_chunks(tok[2], rch[c], &nrch[c], &rch_star[c]); }
  else if (!strcmp(tok[0], "wchunks") && nt >= 3) { int c = parse_cls(tok[1]); if (c >= 0) parse_chunks(tok[2], wch[c], &nwch[c], &wch_star[c]); }
  else if (!strcmp(tok[0], "rerr") && nt >= 5) { int c = parse_cls(tok[1]); if (c >= 0 && nrerr[c] < MAXERR) { struct errrule r = { parse_long(tok[2]), (int)parse_long(tok[3]), (int)parse_long(tok[4]) }; rerr[c][nrerr[c]++] = r; } }
  else if (!strcmp(tok[0], "werr") && nt >= 5) { int c = parse_cls(tok[1]); if (c >= 0 && nwerr[c] < MAXERR) { struct errrule r = { parse_long(tok[2]), (int)parse_long(tok[3]), (int)parse_long(tok[4]) }; werr[c][nwerr[c]++] = r; } }
  else if (!strcmp(tok[0], "reof") && nt >= 3) { int c = parse_cls(tok[1]); if (c >= 0) { reof[c] = parse_long(tok[2]); have_reof[c] = 1; } }
  else if (!strcmp(tok[0], "openerr") && nt >= 3) { int c = parse_cls(tok[1]); if (c >= 3) openerr[c] = (int)parse_long(tok[2]); }
}

static char *getenv_raw(const char *name) {
  extern char **environ;
  size_t n = strlen(name);
  if (!environ) return 0;
  for (char **e = environ; *e; e++) if (!strncmp(*e, name, n) && (*e)[n] == '=') return *e + n + 1;
  return 0;
}

static void logenv(const char *name, int found) {
  if (logfd < 0) return;
  char line[160]; char *p = line;
  p = fmt_str(p, "seq="); p = fmt_long(p, ++seqno);
  p = fmt_str(p, " op=getenv cls=");
  for (int i = 0; name[i] && i < 63; i++) *p++ = (name[i] == ' ' || name[i] == '\n') ? '?' : name[i];
  p = fmt_str(p, " req=0 ret="); p = fmt_long(p, found);
  p = fmt_str(p, " errno=0\n");
  raw_write(logfd, line, p - line);
}

char *getenv(const char *name) {
  if (!active || !name) return getenv_raw(name ? name : "");
  for (int i = 0; i < nenv; i++) if (!strcmp(envname[i], name)) { logenv(name, !envunset[i]); return envunset[i] ? 0 : envval[i]; }
  char *r = getenv_raw(name);
  logenv(name, r != 0);
  return r;
}
char *secure_getenv(const char *name) { return getenv(name); }

__attribute__((constructor)) static void simio_init(void) {
  for (int i = 0; i < 1024; i++) fdcls[i] = -1;
  fdcls[0] = 0; fdcls[1] = 1; fdcls[2] = 2;
  const char *plan = getenv_raw("SIMIO_PLAN");
  const char *lg = getenv_raw("SIMIO_LOG");
  if (!plan) return;
  int fd = (int)syscall(SYS_openat, AT_FDCWD, plan, O_RDONLY | O_CLOEXEC, 0);
  if (fd < 0) return;
  static char buf[16384];
  long n = 0, r;
  while ((r = raw_read(fd, buf + n, sizeof(buf) - 1 - n)) > 0) n += r;
  syscall(SYS_close, fd);
  buf[n] = 0;
  char *p = buf;
  while (*p) {
    char *e = p; while (*e && *e != '\n') e++;
    char save = *e; *e = 0;
    if (*p != '#') parse_line(p);
    if (!save) break;
    p = e + 1;
  }
  if (lg) logfd = (int)syscall(SYS_openat, AT_FDCWD, lg, O_WRONLY | O_CREAT | O_TRUNC | O_CLOEXEC, 0644);
  if (logfd >= 0 && logfd < 1024) fdcls[logfd] = -1;
  active = 1;
}

static int cls_of(int fd) { return (active && fd >= 0 && fd < 1024) ? fdcls[fd] : -1; }

static int match_err(struct errrule *rules, int n, long call) {
  for (int i = 0; i < n; i++) if (call >= rules[i].call && call < rules[i].call + rules[i].times) return rules[i].err;
  return 0;
}

static long next_chunk(long *arr, int n, int star, int *pos, long want) {
  if (n == 0) return want;
  long c;
  if (*pos < n) c = arr[(*pos)++];
  else if (star) return want;
  else c = arr[n - 1];
  if (c <= 0) c = 1;
  return c < want ? c : want;
}

ssize_t read(int fd, void *buf, size_t count) {
  int c = cls_of(fd);
  if (c < 0) return raw_read(fd, buf, count);
  long call = ++rcalls[c];
  int e = match_err(rerr[c], nrerr[c], call);
  if (e) { logev("read", c, (long)count, -1, e); errno = e; return -1; }
  long want = (long)count;
  if (have_reof[c]) {
    long left = reof[c] - rdelivered[c];
    if (left <= 0) { logev("read", c, (long)count, 0, 0); return 0; }
    if (want > left) want = left;
  }
  long chunk = next_chunk(rch[c], nrch[c], rch_star[c], &rch_pos[c], want);
  long got = 0;
  while (got < chunk) {
    long r = raw_read(fd, (char *)buf + got, (size_t)(chunk - got));
    if (r < 0) { if (errno == EINTR) continue; if (got == 0) { int se = errno; logev("read", c, (long)count, -1, se); errno = se; return -1; } break; }
    if (r == 0) break;
    got += r;
    /* Always fill the chunk (or reach EOF), plan or no plan: on a pipe the kernel's short
       reads depend on how far the writer has got, which is timing the simulator does not own. */
  }
  rdelivered[c] += got;
  logev("read", c, (long)count, got, 0);
  return got;
}

ssize_t write(int fd, const void *buf, size_t count) {
  int c = cls_of(fd);
  if (c < 0) return raw_write(fd, buf, count);
  long call = ++wcalls[c];
  int e = match_err(werr[c], nwerr[c], call);
  if (e) { logev("write", c, (long)count, -1, e); errno = e; return -1; }
  long chunk = next_chunk(wch[c], nwch[c], wch_star[c], &wch_pos[c], (long)count);
  long done = 0;
  while (done < chunk) {
    long r = raw_write(fd, (const char *)buf + done, (size_t)(chunk - done));
    if (r < 0) { if (errno == EINTR) continue; if (done == 0) { int se = errno; logev("write", c, (long)count, -1, se); errno = se; return -1; } break; }
    done += r;
  }
  logev("write", c, (long)count, done, 0);
  return done;
}

ssize_t writev(int fd, const struct iovec *iov, int iovcnt) {
  int c = cls_of(fd);
  if (c < 0) return syscall(SYS_writev, fd, iov, iovcnt);
  /* deliver the first non-empty buffer through write(): a legal short vectored write */
  for (int i = 0; i < iovcnt; i++) if (iov[i].iov_len) return write(fd, iov[i].iov_base, iov[i].iov_len);
  return 0;
}

static int classify_path(const char *path) {
  size_t n = strlen(path);
  for (int c = 3; c < NCLS; c++) {
    size_t m = strlen(suffix[c]);
    if (m && n >= m && !strcmp(path + n - m, suffix[c])) return c;
  }
  return -1;
}

static int do_open(int dirfd, const char *path, int flags, mode_t mode) {
  int c = active ? classify_path(path) : -1;
  if (c >= 0 && openerr[c]) { logev("open", c, flags, -1, openerr[c]); errno = openerr[c]; return -1; }
  int fd = (int)syscall(SYS_openat, dirfd, path, flags, mode);
  if (c >= 0) {
    int se = errno;
    logev("open", c, flags, fd, fd < 0 ? se : 0);
    if (fd >= 0 && fd < 1024) fdcls[fd] = c;
    errno = se;
  }
  return fd;
}

int open(const char *path, int flags, ...) { mode_t m = 0; if (flags & (O_CREAT | O_TMPFILE)) { va_list ap; va_start(ap, flags); m = va_arg(ap, mode_t); va_end(ap); } return do_open(AT_FDCWD, path, flags, m); }
int open64(const char *path, int flags, ...) { mode_t m = 0; if (flags & (O_CREAT | O_TMPFILE)) { va_list ap; va_start(ap, flags); m = va_arg(ap, mode_t); va_end(ap); } return do_open(AT_FDCWD, path, flags, m); }
int openat(int dirfd, const char *path, int flags, ...) { mode_t m = 0; if (flags & (O_CREAT | O_TMPFILE)) { va_list ap; va_start(ap, flags); m = va_arg(ap, mode_t); va_end(ap); } return do_open(dirfd, path, flags, m); }
int openat64(int dirfd, const char *path, int flags, ...) { mode_t m = 0; if (flags & (O_CREAT | O_TMPFILE)) { va_list ap; va_start(ap, flags); m = va_arg(ap, mode_t); va_end(ap); } return do_open(dirfd, path, flags, m); }

int close(int fd) {
  if (active && fd >= 3 && fd < 1024 && fdcls[fd] >= 0) { logev("close", fdcls[fd], 0, 0, 0); fdcls[fd] = -1; }
  if (fd == logfd) return 0;
  return (int)syscall(SYS_close, fd);
}

static uint64_t splitmix(uint64_t *x) {
  *x += 0x9E3779B97F4A7C15ULL; uint64_t z = *x;
  z = (z ^ (z >> 30)) * 0xBF58476D1CE4E5B9ULL; z = (z ^ (z >> 27)) * 0x94D049BB133111EBULL; return z ^ (z >> 31);
}

ssize_t getrandom(void *buf, size_t len, unsigned int flags) {
  if (!active || !have_seed) return syscall(SYS_getrandom, buf, len, flags);
  unsigned char *o = buf; size_t i = 0;
  while (i < len) {
    uint64_t x = seed ^ (seed_ctr++ * 0xD1342543DE82EF95ULL);
    uint64_t w = splitmix(&x);
    for (int j = 0; j < 8 && i < len; j++) o[i++] = (unsigned char)(w >> (8 * j));
  }
  logev("getrandom", -1, (long)len, (long)len, 0);
  return (ssize_t)len;
}

int clock_gettime(clockid_t clk, struct timespec *ts) {
  if (!active || !have_clock) return (int)syscall(SYS_clock_gettime, clk, ts);
  clk_real += clk_step; clk_mono += clk_step;
  int64_t v = (clk == CLOCK_REALTIME || clk == CLOCK_REALTIME_COARSE) ? clk_real : clk_mono;
  ts->tv_sec = v / 1000000000LL; ts->tv_nsec = v % 1000000000LL;
  if (ts->tv_nsec < 0) { ts->tv_nsec += 1000000000LL; ts->tv_sec -= 1; }
  return 0;
}
